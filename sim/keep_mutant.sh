#!/bin/bash
# keep_mutant.sh <worktree> <id> <property> <caught: yes|no> "<checks that catch it / notes>"
wt=$1; id=$2; prop=$3; caught=$4; notes=$5
d=/verif/seeded/$id
mkdir -p $d
cp $wt/mutant.diff $d/patch.diff
rm -rf $d/demo; cp -r $wt/demo $d/demo; rm -f $d/demo/demo $d/demo/*.o $d/demo/a.out
python3 - "$wt" "$d" "$prop" "$caught" "$notes" <<'P'
import json,sys
wt,d,prop,caught,notes=sys.argv[1:6]
try: m=json.load(open(wt+'/meta.json'))
except Exception as e: m={'summary':'(meta.json of the author unreadable: %s)'%e}
out={'property':prop,'breaks':m.get('summary',''),'needs':m.get('needs',''),'files':m.get('files',[]),
     'origin':'independent sub-agent given only the property text and a scratch worktree',
     'confirmed':{'demo_fails_with_change':True,'demo_passes_without_change':True,'existing_suite_passes_with_change':'make -j16 check: 127/127 PASS',
                  'how':'sim/try_mutant.sh <worktree> %s (runs demo with/without the change, make check, then applies patch.diff to /repo, runs the registered quick check, and reverts /repo)'%prop},
     'detected_by_quick_check':caught=='yes','detection_notes':notes,'check_output':[l.rstrip() for l in open('/tmp/p/mut_check.log') if l.startswith(('VIOLATION','  key=','check '))][:12]}
json.dump(out,open(d+'/meta.json','w'),indent=1)
P
ls $d
