"""Evidence for C13 from the merged worker statistics."""


def evidence(c):
    st = c['stats']
    gaps = []
    probes = dict(
        dispatches=st.get('dispatches', 0),
        registration_landed_while_a_violating_call_was_in_flight=st.get('midcall_regs', 0),
        threads_started_on_a_dead_threads_stack_and_tls_block=st.get('tls_reuse', 0),
        children_created_by_a_thread_holding_a_thread_local_registration=st.get('children_of_registered', 0),
        open_inheritance_resolved_as_not_inherited=st.get('collapsed_none', 0),
        open_inheritance_resolved_as_inherited=st.get('collapsed_inherit', 0),
        first_registration_returned_null=st.get('first_prev_null', 0),
        first_registration_returned_default_handler=st.get('first_prev_default', 0),
        handlers_that_re_entered_the_library=st.get('nested_actions', 0),
        process_wide_registration_calls_run_preemptibly=st.get('preemptible_regs', 0),
        dispatches_of_whole_api_violating_calls=st.get('api_dispatches', 0),
    )
    for k in ('dispatches', 'registration_landed_while_a_violating_call_was_in_flight', 'threads_started_on_a_dead_threads_stack_and_tls_block',
              'children_created_by_a_thread_holding_a_thread_local_registration'):
        if probes[k] == 0:
            gaps.append('probe %s is zero' % k)
    for k, v in st.get('op_kinds', {}).items():
        if v == 0:
            gaps.append('op kind %s never generated' % k)
    samples = list(c['batch'].samples[:3])
    for key, kf, v in c['known_seen']:
        samples.append(dict(known_finding=key, replay=v.get('replay')))
    for key, v in c['reported']:
        samples.append(dict(violation=key, replay=v.get('replay'), detail=v.get('detail')))
    hist = st.get('histories', 0)
    coverage = dict(
        evaluations=int(hist),
        distinct_nontrivial=len(c['fps']),
        rule=('one evaluation = one history: 1-6 real threads (1-2 created before any registration, the others created by running threads, joined or not), '
              'each with 1-12 ops drawn from set_/thrd_set_ {str,mem} registrations with handler in {NULL,H1,H2,H3,ignore_handler_s}, violating str and mem '
              'calls, clean calls, spawn and join; executed under one seeded interleaving (tier 1: switches at op boundaries only; tier 2: also '
              'preemption at every basic block / memory access inside the violating calls) and checked step by step against the reference model '
              '(which handler ran, on which thread; what each registration returned). distinct_nontrivial = distinct (history, schedule) '
              'fingerprints among histories containing at least one dispatch that happened after two or more registrations touching its kind; '
              'union over workers'),
        samples=samples,
        histories=hist,
        tier1_op_atomic=st.get('tier1', 0),
        tier2_preemption_inside_violating_calls=st.get('tier2', 0),
        ops=st.get('ops', 0),
        op_kinds=st.get('op_kinds', {}),
        threads_run=st.get('threads', 0),
        scheduler_steps=st.get('events', 0),
        context_switches=st.get('switches', 0),
        switches_inside_calls=st.get('inner_switches', 0),
        abstract_model_states_reached=len(c['triples']),
        histories_with_nontrivial_dispatch=st.get('nontrivial', 0),
        probes=probes,
        fault_kinds_fired=dict(preemption_inside_violating_call=st.get('inner_switches', 0), thread_exit_and_stack_reuse=st.get('tls_reuse', 0),
                               registration_racing_with_dispatch=st.get('midcall_regs', 0)),
        determinism_gate=dict(runs_compared_across_processes=c['det']['compared'], mismatches=c['det']['mismatches'],
                              in_process_schedule_replays=st.get('det_checked', 0), in_process_mismatches=st.get('nondeterministic', 0)),
        worker_restarts=c['batch'].restarts,
        runs_per_hour=int(hist / max(c['t_main'], 1e-9) * 3600),
        simulated_time='none: no clock in the library; progress is measured in scheduler steps',
        components=dict(real=['safeclib built from /repo working tree: the four registration functions, both dispatchers, 17 violating entry points', 'glibc pthreads and the _Thread_local implementation (real thread creation, exit, stack and TLS reuse)'],
                        simulated=['choice of running thread', 'handlers H1-H3 and the default handler (logging; link-time wrap of ignore_handler_s)']),
        known_findings=[k for k, _, _ in c['known_seen']],
        gaps=gaps,
        exhaustive=False,
    )
    if c.get('asan_stats'):
        coverage['asan_variant'] = dict(histories=c['asan_stats'].get('histories', 0), crashes=len(c['asan'].crashes))
    return dict(
        property_id='C13', tier=c['tier'], seed=c['seed'], level=c['level'], coverage=coverage,
        assumptions=['registration functions are executed without internal preemption: racing process-wide registrations are a caller-side data race the property does not speak about (DESIGN 5.4)',
                     'whether a child thread inherits its creator\'s thread-local registration is left open, as the property leaves it: the model carries both possibilities until an observation decides',
                     'how often and with which code the selected handler is invoked is C05\'s statement and is not judged here',
                     'sequentially consistent interleaving; x86-64, glibc'],
        wall_s=round(c['wall'], 2), violations=len(c['reported']))
