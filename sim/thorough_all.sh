#!/bin/bash
# thorough_all.sh -- the three thorough tiers one after the other (run from the directory that contains sim/)
for p in C20 C13 C12; do
  /usr/bin/time -f "$p thorough wall %e s" sim/check $p --tier thorough > thorough_$p.log 2>&1; rc=$?
  echo "$p rc=$rc $(tail -2 thorough_$p.log | tr '\n' ' ')"
  grep -E "^VIOLATION|^  key=|^check:" thorough_$p.log | cut -c1-300
done
