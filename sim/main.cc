// simx -- worker process of the deterministic simulator.
//   simx <C12|C13|C20> batch --seed S --from A --to B [--stride K] [--worker W] ...
//   simx <C12|C13|C20> replay <file>
#include "props.h"
#include <unistd.h>
#include <sys/personality.h>
#include <sched.h>
#include <fcntl.h>
#include <sys/file.h>
#include <sys/resource.h>
#include <sys/stat.h>
#include <signal.h>

static void usage() {
    fprintf(stderr, "usage: simx <C12|C13|C20> batch|replay [options]\n");
    _exit(2);
}

int main(int argc, char **argv) {
    if (argc < 3) usage();
    Args a;
    a.prop = argv[1];
    a.mode = argv[2];
    for (int i = 3; i < argc; i++) {
        std::string k = argv[i];
        auto val = [&]() -> const char * { if (i + 1 >= argc) usage(); return argv[++i]; };
        if (k == "--seed") a.seed = strtoull(val(), nullptr, 10);
        else if (k == "--from") a.from = strtoull(val(), nullptr, 10);
        else if (k == "--to") a.to = strtoull(val(), nullptr, 10);
        else if (k == "--stride") a.stride = strtoull(val(), nullptr, 10);
        else if (k == "--worker") a.worker = atoi(val());
        else if (k == "--schedules") a.schedules = atoi(val());
        else if (k == "--min-budget") a.min_budget = atoi(val());
        else if (k == "--tier2") a.tier2 = atoi(val());
        else if (k == "--outdir") a.outdir = val();
        else if (k == "--fpfile") a.fpfile = val();
        else if (k == "--sites") a.sites = val();
        else if (k[0] != '-') a.replay = k;
        else usage();
    }
    // no address-space randomisation: same addresses in every process (re-exec once)
    if (!getenv("VERIF_NOASLR_DONE")) {
        int pers = personality(0xffffffff);
        if (pers != -1 && !(pers & ADDR_NO_RANDOMIZE) && personality(pers | ADDR_NO_RANDOMIZE) != -1) {
            setenv("VERIF_NOASLR_DONE", "1", 1);
            execv("/proc/self/exe", argv);
        }
    }
    // a fixed, minimal environment (DESIGN 3.3)
    bool nofaults = getenv("VERIF_NOFAULTS") != nullptr;
    bool stress = getenv("VERIF_STRESS") != nullptr;
    bool nopin = getenv("VERIF_NOPIN") != nullptr;
    bool adjonly = getenv("VERIF_ADJACENT_ONLY") != nullptr;
    std::string dump_unhit = getenv("VERIF_DUMP_UNHIT") ? getenv("VERIF_DUMP_UNHIT") : "";
    clearenv();
    if (nofaults) setenv("VERIF_NOFAULTS", "1", 1);
    if (stress) setenv("VERIF_STRESS", "1", 1);
    if (nopin) setenv("VERIF_NOPIN", "1", 1);
    if (adjonly) setenv("VERIF_ADJACENT_ONLY", "1", 1);
    if (!dump_unhit.empty()) setenv("VERIF_DUMP_UNHIT", dump_unhit.c_str(), 1);
    setenv("TZ", "UTC", 1);
    setenv("VERIF_ENV_A", "alpha", 1);
    setenv("VERIF_ENV_LONG", "the quick brown fox jumps over the lazy dog 0123456789", 1);
    {
        std::string huge;
        for (int i = 0; i < 25; i++) huge += "/opt/verif/some/long/path/element-" + std::to_string(i) + ":";
        setenv("VERIF_ENV_HUGE", huge.c_str(), 1); // ~900 bytes: beyond any small stack buffer
    }
    {
        // temporary files the library creates go to a scratch directory next to the binary (the driver empties it), and no
        // file this process writes may grow beyond 64 MB: a changed library that fails to remove its temporary files, or
        // writes without end, must not fill /tmp or the disk
        char exe[4096];
        ssize_t n = readlink("/proc/self/exe", exe, sizeof exe - 1);
        std::string dir = "/tmp";
        if (n > 0) {
            exe[n] = 0;
            std::string e(exe);
            size_t sl = e.rfind('/');
            if (sl != std::string::npos) { dir = e.substr(0, sl) + "/simtmp"; mkdir(dir.c_str(), 0777); }
        }
        setenv("TMPDIR", dir.c_str(), 1);
        struct rlimit rl = {64u << 20, 64u << 20};
        setrlimit(RLIMIT_FSIZE, &rl);
        signal(SIGXFSZ, SIG_IGN);
    }
    setvbuf(stdout, nullptr, _IOLBF, 0);
    if (a.mode == "batch") {
        // all threads of a worker on one CPU: the baton hand-off is then a plain context switch. CPUs are claimed
        // through lock files so that workers of concurrently running checks do not pile up on the same CPU
        // (a pinned worker that shares its CPU with another one is several times slower than an unpinned one).
        long ncpu = sysconf(_SC_NPROCESSORS_ONLN);
        if (ncpu > 1 && !nopin) {
            for (long k = 0; k < ncpu; k++) {
                long cpu = (1 + a.worker + k) % ncpu;
                char path[64];
                snprintf(path, sizeof path, "/tmp/.verif-cpu-%ld.lock", cpu);
                int fd = open(path, O_CREAT | O_RDWR | O_CLOEXEC, 0666);
                if (fd < 0) continue;
                if (flock(fd, LOCK_EX | LOCK_NB) == 0) { // kept for the life of the process
                    cpu_set_t set;
                    CPU_ZERO(&set);
                    CPU_SET(cpu, &set);
                    sched_setaffinity(0, sizeof set, &set);
                    break;
                }
                close(fd);
            }
        }
    }
    sim_global_init(argv[0]);
    if (!a.sites.empty()) load_sites_file(a.sites.c_str());
    if (a.mode == "batch") {
        if (a.prop == "C12") return c12_batch(a);
        if (a.prop == "C13") return c13_batch(a);
        if (a.prop == "C20") return c20_batch(a);
    } else if (a.mode == "replay") {
        if (a.replay.empty()) usage();
        if (a.prop == "C12") return c12_replay(a.replay);
        if (a.prop == "C13") return c13_replay(a.replay);
        if (a.prop == "C20") return c20_replay(a.replay);
    }
    usage();
    return 2;
}
