#!/bin/bash
# det_experiment.sh [N] -- determinism experiment of DESIGN section 9: the first N run indices of every check are
# executed at worker counts 1, 4 and 14 (fresh processes each), plain and ASan builds; the per-run event-log hashes
# must agree.
N=${1:-2000}
cd /verif
out=/verif/build/tmp/det; rm -rf $out; mkdir -p $out
for v in plain asan; do
  n=$N; [ $v = asan ] && n=$((N/4))
  for p in C12 C13 C20; do
    for W in 1 4 14; do
      for w in $(seq 0 $((W-1))); do
        ./build/$v/simx $p batch --seed 1 --from $w --to $n --stride $W --worker $w --schedules 4 --sites build/$v/alloc_sites.txt --outdir $out/replays 2>/dev/null | grep "^RUNHASH" > $out/$v.$p.$W.$w &
      done; wait
      cat $out/$v.$p.$W.* | sort -k2 -n > $out/$v.$p.W$W; rm -f $out/$v.$p.$W.*
    done
    a=$(md5sum < $out/$v.$p.W1); b=$(md5sum < $out/$v.$p.W4); c=$(md5sum < $out/$v.$p.W14)
    echo "$v $p runs=$(wc -l < $out/$v.$p.W1)/$(wc -l < $out/$v.$p.W4)/$(wc -l < $out/$v.$p.W14) $( [ "$a" = "$b" ] && [ "$b" = "$c" ] && echo IDENTICAL || echo DIFFERENT)"
  done
done
# plain vs ASan builds execute the same plans; event counts differ (different code), so hashes are not compared across builds
