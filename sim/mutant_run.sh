#!/bin/bash
# mutant_run.sh <seeded-id> <PROP> [runs] -- run a quick check against /verif/seeded/<id>/patch.diff applied to a
# scratch worktree of /repo (never to /repo itself); separate build, replay and evidence directories.
id=$1; prop=$2; runs=${3:-}
here=$(cd "$(dirname "$0")" && pwd)
wt=/tmp/wt/m-$id
git -C /repo worktree remove --force $wt 2>/dev/null
git -C /repo worktree add -q --detach $wt HEAD || exit 2
cp /repo/config.h $wt/; cp /repo/include/safe_config.h /repo/include/safe_types.h /repo/include/safe_lib_errno.h $wt/include/ 2>/dev/null
git -C $wt apply /verif/seeded/$id/patch.diff || { echo "patch does not apply"; exit 2; }
export VERIF_REPO=$wt VERIF_BUILD=/tmp/wt/build-$id VERIF_OUT=/tmp/wt/out-$id VERIF_EVIDENCE=/tmp/wt/ev-$id
[ -n "$runs" ] && export VERIF_RUNS=$runs
$here/check $prop > /tmp/wt/m-$id.log 2>&1; rc=$?
echo "$id $prop rc=$rc $(grep -c '^VIOLATION' /tmp/wt/m-$id.log) violations; $(tail -1 /tmp/wt/m-$id.log)"
grep -E "^  key=" /tmp/wt/m-$id.log | cut -c1-200 | head -${SHOW:-4}
git -C /repo worktree remove --force $wt; rm -rf /tmp/wt/build-$id /tmp/wt/out-$id /tmp/wt/ev-$id
