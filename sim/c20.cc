// C20 -- running out of memory inside the library is an error, not a crash.
// DESIGN.md section 6: for every generated call that allocates, every position k of the failing request
// (once / from k on / sampled pairs) is enumerated; oracle = survival, failure-with-dest-cleared or
// unchanged success, nothing outstanding, sources untouched.
#include "ops.h"
#include "props.h"
#include <errno.h>
#include <wchar.h>
#include <algorithm>

struct C20Stats {
    uint64_t ops = 0, alloc_ops = 0, dry = 0, faulted = 0, hit = 0, not_hit = 0, pairs = 0;
    uint64_t out_fail_clean = 0, out_success_same = 0, fail_no_handler = 0;
    std::map<std::string, uint64_t> fail_no_handler_fn;
    uint64_t wr_faults = 0, events = 0, leak_checks = 0, dry_heap_misuse = 0, retained_ops = 0;
    uint64_t fn_ops[FN_COUNT] = {0}, fn_alloc_ops[FN_COUNT] = {0}, fn_faulted[FN_COUNT] = {0};
    std::map<std::string, uint64_t> viol_count;
    std::set<uint64_t> cases;
    std::map<int, uint64_t> nalloc_hist;
};

static const Plan *g_cur_plan = nullptr;
static uint64_t g_cur_seed = 0, g_cur_run = 0;
static int g_cur_fn = 0;
static const char *g_cur_phase = "dry";

static std::string failed_site(const OpResult &r, const Fault &f) {
    if (!f.alloc_k && f.alloc_mask) {
        size_t k = 1 + __builtin_ctzll(f.alloc_mask);
        if (k <= r.sites.size()) return site_name(r.sites[k - 1]);
    }
    if (f.alloc_k >= 1 && (size_t)f.alloc_k <= r.sites.size()) return site_name(r.sites[f.alloc_k - 1]);
    return "?";
}
static void c20_crash_hook(int sig) {
    if (!g_cur_plan) return;
    const Op &op = g_cur_plan->tasks[0].ops[0];
    std::string site = "?";
    if (g_sim.tasks.size() && g_sim.tasks[0]->res.size()) site = failed_site(g_sim.tasks[0]->res[0], op.f);
    std::string key = std::string("crash:") + g_fn[g_cur_fn].name + ":" + site;
    Schedule none;
    std::string extra = "function " + std::string(g_fn[g_cur_fn].name) + "\nsignal " + std::to_string(sig) + "\n";
    std::string path = write_replay("C20", "crash", key, g_cur_seed, g_cur_run, *g_cur_plan, none, extra);
    if (!strcmp(g_cur_phase, "dry")) key = "crash-dry:" + std::string(g_fn[g_cur_fn].name);
    printf("CRASH {\"run\":%llu,\"phase\":\"%s\",\"signal\":%d,\"key\":%s,\"replay\":%s}\n", (unsigned long long)g_cur_run, g_cur_phase, sig, jstr(key).c_str(), jstr(path).c_str());
    fflush(stdout);
}

static void exec_one(const Plan &plan, PassResult &pr) {
    Schedule empty;
    ReplayStrategy st(empty, 1);
    run_pass(plan, api_cfg(PASS_SOLO, 0, false), st, pr);
}

// what "failure" means for the function, and where its dest is
struct Shape {
    bool neg_is_failure; // printf families: negative count; otherwise non-zero errno_t
    int dest = -1, dmax = -1, esz = 1;
    bool has_dest = false;
};
static Shape shape_of(const Op &op) {
    Shape s;
    Fam f = g_fn[op.fn].fam;
    s.neg_is_failure = f == FAM_FMT || f == FAM_WFMT || f == FAM_SFMT || f == FAM_SCAN || op.fn == FN_stpcpy_s || op.fn == FN_stpncpy_s;
    int di = -1, mi = -1, esz = 1;
    switch (f) {
    case FAM_COPY:
        di = 0; mi = 1;
        esz = (op.fn == FN_wcscpy_s || op.fn == FN_wcscat_s) ? 4 : 1;
        break;
    case FAM_NCOPY:
        di = 0; mi = 1;
        esz = (op.fn == FN_wcsncpy_s || op.fn == FN_wcsncat_s || op.fn == FN_wmemcpy_s || op.fn == FN_wmemmove_s) ? 4 : 1; // mem*16/32: dmax is in bytes
        break;
    case FAM_FMT: di = 0; mi = 1; break;
    case FAM_WFMT: di = 0; mi = 1; esz = 4; break;
    case FAM_UNI:
        if (op.fn != FN_iswfc) { di = 0; mi = 1; esz = 4; }
        break;
    case FAM_CONV:
        di = 1; mi = 2;
        esz = (op.fn == FN_mbstowcs_s || op.fn == FN_mbsrtowcs_s) ? 4 : 1;
        break;
    case FAM_TIME:
        if (op.fn == FN_asctime_s || op.fn == FN_ctime_s || op.fn == FN_strerror_s) { di = 0; mi = 1; }
        else if (op.fn == FN_getenv_s) { di = 1; mi = 2; }
        break;
    case FAM_SCAN:
        if (op.fn == FN_gets_s) { di = 2; mi = 3; }
        break;
    default: break;
    }
    if (di >= 0 && op.a[di] >= 0 && op.a[mi] > 0 && op.a[mi] <= 4096) {
        s.has_dest = true;
        s.dest = (int)op.a[di];
        s.dmax = (int)op.a[mi];
        s.esz = esz;
    }
    return s;
}

static Task g_pre; // holds the pre-call image of the arena

struct Verdict {
    std::string cls; // "" = fine
    std::string detail;
};
static Verdict judge(const Plan &plan, const OpResult &dry, const OpResult &r) {
    Verdict v;
    const Op &op = plan.tasks[0].ops[0];
    Shape sh = shape_of(op);
    if (r.double_free) {
        v.cls = "double-free";
        v.detail = "the call released a block it had already released";
        return v;
    }
    if (r.nfailed && r.heap_overrun > dry.heap_overrun) {
        v.cls = "overrun";
        v.detail = "after the failed request the call wrote beyond the end of a block it had allocated (red zone overwritten; the fault-free execution does not)";
        return v;
    }
    if (r.nfailed && r.heap_uaf > dry.heap_uaf) {
        v.cls = "use-after-free";
        v.detail = "after the failed request the call wrote to, grew, or built its handler message from a block it had already released (the fault-free execution does not)";
        return v;
    }
    if (r.nfailed && sh.has_dest && (int64_t)sh.dest + (int64_t)sh.dmax * sh.esz <= ARENA_SIZE) {
        // poison of a released block in dest: the call copied from memory it had already released
        const uint8_t *post = g_sim.tasks[0]->arena.base, *pre = g_pre.arena.base;
        int run = 0, prerun = 0, best = 0, prebest = 0;
        for (int i = 0; i < sh.dmax * sh.esz; i++) {
            run = post[sh.dest + i] == 0xDD ? run + 1 : 0;
            prerun = pre[sh.dest + i] == 0xDD ? prerun + 1 : 0;
            best = std::max(best, run);
            prebest = std::max(prebest, prerun);
        }
        if (best >= 4 && prebest < 4) {
            v.cls = "use-after-free";
            v.detail = "after the failed request the call copied the contents of a block it had already released into dest";
            return v;
        }
    }
    if (r.leaked) {
        v.cls = "leak";
        v.detail = std::to_string(r.leaked) + " block(s) allocated by the call are still live after the call has returned and its thread has ended";
        return v;
    }
    if (!r.nfailed) return v; // the injected failure was not reached (request count changed): nothing to judge
    bool failed = sh.neg_is_failure ? r.raw < 0 : r.raw != 0;
    const uint8_t *post = g_sim.tasks[0]->arena.base;
    const uint8_t *pre = g_pre.arena.base;
    if (failed) {
        if (sh.has_dest && (int64_t)sh.dest + (int64_t)sh.dmax * sh.esz <= ARENA_SIZE) {
            // cleared: first element zero, and nothing the failed call produced is left behind
            bool first_zero = true;
            for (int b = 0; b < sh.esz; b++) first_zero &= post[sh.dest + b] == 0;
            if (!first_zero) {
                v.cls = "not-cleared";
                v.detail = "call reports failure but dest[0] is not zero";
                return v;
            }
            for (int i = 0; i < sh.dmax; i++) {
                bool zero = true, same = true;
                for (int b = 0; b < sh.esz; b++) {
                    zero &= post[sh.dest + i * sh.esz + b] == 0;
                    same &= post[sh.dest + i * sh.esz + b] == pre[sh.dest + i * sh.esz + b];
                }
                if (!zero && !same) {
                    v.cls = "not-cleared";
                    v.detail = "call reports failure but dest[" + std::to_string(i) + "] holds partial output";
                    return v;
                }
            }
        }
        // source operands untouched
        for (const Blob &bl : op.blobs) {
            if (sh.has_dest && bl.off >= (uint32_t)sh.dest && bl.off < (uint32_t)(sh.dest + sh.dmax * sh.esz)) continue;
            if (bl.bytes.size() <= 8) continue; // out-parameters (lenp, resultp, errp)
            if (memcmp(post + bl.off, bl.bytes.data(), bl.bytes.size()) != 0) {
                // a source that overlaps dest is excluded by the property; the generators of the
                // allocating families never overlap them
                v.cls = "source-modified";
                v.detail = "a source operand at arena offset " + std::to_string(bl.off) + " changed although the call failed";
                return v;
            }
        }
        // "as for any other violation": every other failure this library reports goes through the constraint handler, and
        // so does every out-of-memory failure of the unchanged tree (measured: none of 1.2 M faulted failures without it)
        if (r.hcalls.empty()) {
            v.cls = "handler-not-told";
            v.detail = "the call reports failure after the failed allocation, dest is cleared, but no constraint handler was invoked";
        }
        return v;
    }
    // the call claims success: then everything observable must equal the fault-free run
    if (r.digest_noerr != dry.digest_noerr) { // (errno is not compared: a failed request leaves ENOMEM behind, which a successful call may keep)
        v.cls = "wrong-success";
        v.detail = "call reports success after a failed allocation but its outputs differ from the fault-free run";
    }
    return v;
}

static uint64_t case_hash(const Plan &p) {
    std::string t = plan_to_text(p);
    return hash_bytes(t.data(), t.size());
}

static void flush_stats(C20Stats &st, const Args &a) {
    std::string s = "{";
    auto add = [&](const char *k, uint64_t v) { s += (s.size() > 1 ? "," : "") + std::string("\"") + k + "\":" + std::to_string(v); };
    add("ops", st.ops); add("alloc_ops", st.alloc_ops); add("dry", st.dry); add("faulted", st.faulted); add("hit", st.hit);
    add("not_hit", st.not_hit); add("pairs", st.pairs); add("out_fail_clean", st.out_fail_clean); add("out_success_same", st.out_success_same); add("fail_no_handler", st.fail_no_handler);
    add("wr_faults", st.wr_faults); add("events", st.events); add("leak_checks", st.leak_checks); add("dry_heap_misuse", st.dry_heap_misuse); add("retained_ops", st.retained_ops);
    s += ",\"fn\":{";
    bool first = true;
    for (int f = 0; f < FN_COUNT; f++) {
        if (!st.fn_ops[f]) continue;
        s += (first ? "" : ",") + jstr(g_fn[f].name) + ":[" + std::to_string(st.fn_ops[f]) + "," + std::to_string(st.fn_alloc_ops[f]) + "," + std::to_string(st.fn_faulted[f]) + "]";
        first = false;
    }
    s += "},\"nalloc_hist\":{";
    first = true;
    for (auto &kv : st.nalloc_hist) { s += (first ? "" : ",") + jstr(std::to_string(kv.first)) + ":" + std::to_string(kv.second); first = false; }
    s += "},\"sites\":{";
    first = true;
    for (size_t i = 0; i < g_site_reached.size(); i++) {
        if (!g_site_reached[i]) continue;
        s += (first ? "" : ",") + jstr(site_name((uint32_t)i)) + ":[" + std::to_string(g_site_reached[i]) + "," + std::to_string(g_site_failed[i]) + "]";
        first = false;
        g_site_reached[i] = g_site_failed[i] = 0;
    }
    s += "}}";
    printf("STAT %s\n", s.c_str());
    if (!a.fpfile.empty()) {
        FILE *f = fopen(a.fpfile.c_str(), "ab");
        if (f) {
            uint64_t tag1 = 1;
            for (uint64_t h : st.cases) { fwrite(&tag1, 8, 1, f); fwrite(&h, 8, 1, f); }
            fclose(f);
        }
    }
    std::map<std::string, uint64_t> keep = st.viol_count;
    st = C20Stats();
    st.viol_count = keep;
    fflush(stdout);
}

static void report(C20Stats &st, const Args &a, uint64_t run, const Plan &plan, const std::string &cls, const std::string &site, const std::string &detail) {
    const Op &op = plan.tasks[0].ops[0];
    std::string key = cls + ":" + g_fn[op.fn].name + ":" + site;
    uint64_t &cnt = st.viol_count[key];
    if (cnt++ >= 2) return;
    Schedule none;
    std::string extra = "function " + std::string(g_fn[op.fn].name) + "\n";
    std::string path = write_replay("C20", cls, key, a.seed, run, plan, none, extra);
    printf("VIOL {\"property\":\"C20\",\"class\":%s,\"key\":%s,\"replay\":%s,\"run\":%llu,\"detail\":%s}\n", jstr(cls).c_str(), jstr(key).c_str(),
           jstr(path).c_str(), (unsigned long long)run, jstr(std::string(g_fn[op.fn].name) + ": " + detail).c_str());
    fflush(stdout);
}

static void prepare_pre(const Plan &plan) {
    g_pre.id = 7;
    g_pre.plan = &plan.tasks[0];
    arena_fill(g_pre);
}

int c20_batch(const Args &a) {
    C20Stats st;
    g_crash_hook = c20_crash_hook;
    g_outdir = a.outdir;
    int samples_left = a.worker == 0 && a.from == 0 ? 4 : 0;
    int since_flush = 0;
    static const int alloc_fams[] = {FAM_FMT, FAM_WFMT, FAM_SFMT, FAM_UNI, FAM_CMP};
    for (uint64_t i = a.from; i < a.to; i += a.stride) {
        uint64_t rs = mix64(a.seed, i);
        Rng cr(mix64(rs, 1)), pr_(mix64(rs, 2));
        Plan plan;
        plan.locale = cr.chance(1, 2);
        TaskPlan tp;
        tp.arena_seed = cr.next();
        uint32_t top = 64;
        GenCfg g;
        g.faults = false;
        g.violations = cr.chance(1, 4);
        g.allow_stdio = true;
        int mode = cr.below(10);
        bool ok;
        if (mode < 6) ok = gen_alloc_op(pr_, tp, &top, plan.locale);                                   // site-directed
        else if (mode < 8) ok = gen_op(pr_, alloc_fams[cr.below(5)], tp, &top, g, true, plan.locale); // families that can allocate
        else ok = gen_op(pr_, cr.below(FAM_NFAM), tp, &top, g, true, plan.locale);                    // whole API: finds new allocation sites
        if (!ok || tp.ops.empty()) continue;
        tp.ops.resize(1);
        // stream faults may be attached by the generators (write errors while a %ls buffer is live)
        plan.tasks.push_back(tp);
        Op &op = plan.tasks[0].ops[0];
        op.f.alloc_k = 0;
        op.f.alloc_k2 = 0;
        op.f.alloc_mask = 0;
        g_cur_plan = &plan;
        g_cur_seed = a.seed;
        g_cur_run = i;
        g_cur_fn = op.fn;
        g_cur_phase = "dry";
        printf("BEGIN %llu dry\n", (unsigned long long)i);
        Hasher runhash;
        prepare_pre(plan);
        PassResult dryp;
        exec_one(plan, dryp);
        const OpResult dry = dryp.res[0][0];
        runhash.u64(dry.digest);
        st.ops++;
        st.dry++;
        st.fn_ops[op.fn]++;
        st.events += dry.nev;
        st.wr_faults += dry.wr_faults;
        st.nalloc_hist[(int)dry.nalloc]++;
        // no call leaks, faults or not
        st.leak_checks++;
        if (dry.heap_overrun || dry.heap_uaf) st.dry_heap_misuse++; // memory safety without any fault: not C20's subject; counted
        if (dry.double_free) report(st, a, i, plan, "double-free", "?", "a call in which no allocation failed released a block twice");
        if (dry.outstanding > dry.leaked) st.retained_ops++; // kept beyond the call, released at thread exit: not a leak
        if (dry.leaked) {
            std::string site = "?";
            for (auto &al : g_live) site = site_name(al.site);
            report(st, a, i, plan, "leak", site, std::to_string(dry.leaked) + " block(s) still live after a call in which no allocation failed has returned and its thread has ended");
        }
        if (samples_left > 0 && dry.nalloc) {
            samples_left--;
            printf("SAMPLE {\"op\":%s,\"allocation_requests\":%u,\"ret\":%lld}\n", op_to_json(op).c_str(), dry.nalloc, (long long)dry.raw);
        }
        if (dry.nalloc) {
            st.alloc_ops++;
            st.fn_alloc_ops[op.fn]++;
            int n = (int)dry.nalloc;
            // Failure patterns are explored adaptively: a faulted execution may make requests the fault-free one
            // does not (retries, fallbacks, clean-up that allocates), so after each execution the pattern is extended
            // by one more failing request among those it actually made (up to 3 failures, 48 patterns per call),
            // besides "everything from the k-th request on fails".
            struct FC { uint64_t mask; int from_k; };
            std::vector<FC> cases;
            for (int k = 1; k <= n && k <= 16; k++) cases.push_back({0, k});
            for (int k = 1; k <= n && k <= 16; k++) cases.push_back({1ull << (k - 1), 0});
            std::set<uint64_t> seen;
            for (size_t ci = 0; ci < cases.size() && ci < 48; ci++) {
                FC fc = cases[ci];
                if (!fc.from_k && !seen.insert(fc.mask).second) continue;
                op.f.alloc_k = fc.from_k;
                op.f.alloc_mode = fc.from_k ? 1 : 0;
                op.f.alloc_k2 = 0;
                op.f.alloc_mask = fc.mask;
                g_cur_phase = "fault";
                printf("BEGIN %llu fault\n", (unsigned long long)i);
                PassResult fp;
                exec_one(plan, fp);
                const OpResult &r = fp.res[0][0];
                runhash.u64(r.digest);
                st.faulted++;
                st.fn_faulted[op.fn]++;
                st.events += r.nev;
                if (__builtin_popcountll(fc.mask) >= 2) st.pairs++;
                if (r.nfailed) { st.hit++; st.cases.insert(case_hash(plan)); }
                else st.not_hit++;
                Verdict v = judge(plan, dry, r);
                if (!v.cls.empty()) {
                    Fault fsite = op.f;
                    if (!fsite.alloc_k && fsite.alloc_mask) fsite.alloc_k = 1 + __builtin_ctzll(fsite.alloc_mask);
                    std::string site = failed_site(r, fsite);
                    if (v.cls == "leak") {
                        for (auto &al : g_live) site = site_name(al.site);
                        site += "@fail:" + failed_site(r, fsite);
                    }
                    report(st, a, i, plan, v.cls, site, v.detail);
                } else if (r.nfailed) {
                    bool failed = shape_of(op).neg_is_failure ? r.raw < 0 : r.raw != 0;
                    if (failed) st.out_fail_clean++;
                    else st.out_success_same++;
                }
                if (!fc.from_k && __builtin_popcountll(fc.mask) < 3) {
                    int top = 64 - __builtin_clzll(fc.mask); // highest failing request so far
                    for (int j = top + 1; j <= (int)r.nalloc && j <= 16; j++) cases.push_back({fc.mask | (1ull << (j - 1)), 0});
                }
            }
            op.f.alloc_mask = 0;
            op.f.alloc_k = op.f.alloc_k2 = 0;
        }
        printf("RUNHASH %llu %016llx\n", (unsigned long long)i, (unsigned long long)runhash.h);
        if (++since_flush >= 256) { since_flush = 0; flush_stats(st, a); }
    }
    g_cur_plan = nullptr;
    flush_stats(st, a);
    return 0;
}

int c20_replay(const std::string &path) {
    FILE *f = fopen(path.c_str(), "r");
    if (!f) { perror(path.c_str()); return 2; }
    std::string txt;
    char buf[65536];
    size_t n;
    while ((n = fread(buf, 1, sizeof buf, f)) > 0) txt.append(buf, n);
    fclose(f);
    std::map<std::string, std::string> meta;
    Plan plan;
    Schedule sched;
    if (!parse_replay(txt, meta, plan, sched) || plan.tasks[0].ops.empty()) { fprintf(stderr, "cannot parse %s\n", path.c_str()); return 2; }
    std::string cls = meta["class"];
    Plan dryplan = plan;
    dryplan.tasks[0].ops[0].f.alloc_k = 0;
    dryplan.tasks[0].ops[0].f.alloc_k2 = 0;
    dryplan.tasks[0].ops[0].f.alloc_mask = 0;
    prepare_pre(dryplan);
    PassResult dp;
    exec_one(dryplan, dp);
    OpResult dry = dp.res[0][0];
    if (dry.leaked && cls == "leak" && !plan.tasks[0].ops[0].f.alloc_k && !plan.tasks[0].ops[0].f.alloc_mask) {
        printf("REPRODUCED property=C20 class=leak (fault-free call leaves %u block(s))\n", dry.leaked);
        return 1;
    }
    PassResult fp;
    exec_one(plan, fp); // a crash ends the process in the fatal-signal handler (exit 100+signal)
    Verdict v = judge(plan, dry, fp.res[0][0]);
    if (!v.cls.empty() && (v.cls == cls || cls == "crash")) {
        printf("REPRODUCED property=C20 class=%s %s\n", v.cls.c_str(), v.detail.c_str());
        return 1;
    }
    printf("NOT-REPRODUCED property=C20 class=%s (now: %s; ret=%lld failed_requests=%u)\n", cls.c_str(), v.cls.empty() ? "ok" : v.cls.c_str(),
           (long long)fp.res[0][0].raw, fp.res[0][0].nfailed);
    return 0;
}
