#include "props.h"
int c20_batch(const Args &) { return 2; }
int c20_replay(const std::string &) { return 2; }
