#!/bin/bash
# benign_regress.sh [ids...] -- false-alarm control: every behaviour-preserving change under /verif/benign is run
# through the quick checks named in its meta.json (scratch worktree + own build dir); each must exit 0.
cd /verif
ids=${@:-$(ls benign)}
bad=0
for id in $ids; do
  [ -f benign/$id/patch.diff ] || continue
  mkdir -p seeded/_b-$id; cp benign/$id/patch.diff seeded/_b-$id/patch.diff
  for prop in $(python3 -c "import json;print(' '.join(json.load(open('/verif/benign/$id/meta.json'))['properties_run']))"); do
    out=$(SHOW=2 sim/mutant_run.sh _b-$id $prop 2>&1)
    rc=$(echo "$out" | grep -o "rc=[0-9]*" | head -1)
    if [ "$rc" = "rc=0" ]; then echo "QUIET   $id $prop"; else bad=$((bad+1)); echo "ALARM   $id $prop $rc"; echo "$out" | head -4; fi
  done
  rm -rf seeded/_b-$id
done
echo "benign changes raising an alarm or breaking a check: $bad"
[ $bad = 0 ]
