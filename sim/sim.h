// Deterministic simulator for rurban/safeclib -- shared declarations.
// See /verif/DESIGN.md section 3.
#pragma once
#include <stdint.h>
#include <stddef.h>
#include <stdio.h>
#include <string.h>
#include <stdlib.h>
#include <semaphore.h>
#include <pthread.h>
#include <string>
#include <vector>
#include <map>
#include <set>
#include <functional>

// ---------------------------------------------------------------- PRNG
static inline uint64_t mix64(uint64_t a, uint64_t b) {
    uint64_t z = a + 0x9e3779b97f4a7c15ULL * (b + 1);
    z = (z ^ (z >> 30)) * 0xbf58476d1ce4e5b9ULL;
    z = (z ^ (z >> 27)) * 0x94d049bb133111ebULL;
    return z ^ (z >> 31);
}
struct Rng {
    uint64_t s;
    explicit Rng(uint64_t seed = 0) : s(seed) {}
    uint64_t next() {
        uint64_t z = (s += 0x9e3779b97f4a7c15ULL);
        z = (z ^ (z >> 30)) * 0xbf58476d1ce4e5b9ULL;
        z = (z ^ (z >> 27)) * 0x94d049bb133111ebULL;
        return z ^ (z >> 31);
    }
    uint32_t below(uint32_t n) { return n ? (uint32_t)((next() >> 16) % n) : 0; }
    int range(int lo, int hi) { return hi <= lo ? lo : lo + (int)below((uint32_t)(hi - lo + 1)); }
    bool chance(uint32_t num, uint32_t den) { return below(den) < num; }
    // keyed sub-stream; does not advance this stream
    Rng sub(uint64_t key) const { return Rng(mix64(s, key)); }
};

// ---------------------------------------------------------------- hashing
struct Hasher {
    uint64_t h = 0xcbf29ce484222325ULL;
    void u64(uint64_t v) { h = mix64(h, v); }
    void bytes(const void *p, size_t n);
    void str(const std::string &s) { u64(s.size()); bytes(s.data(), s.size()); }
};
uint64_t hash_bytes(const void *p, size_t n, uint64_t seed = 0);

// ---------------------------------------------------------------- plan
enum { MAXA = 10 };
struct Blob {
    uint32_t off;
    std::string bytes;
};
struct Fault {
    int alloc_k = 0;     // fail the k-th allocation request of this op (1-based); 0 = none
    int alloc_mode = 0;  // 0 = once, 1 = from k on
    int alloc_k2 = 0;    // second failing request (pairs), 0 = none
    uint64_t alloc_mask = 0; // bit k-1 set: the k-th request fails (arbitrary failure patterns, k <= 64)
    int wr_fail_at = -1; // write cookie fails when byte offset >= this (op-relative)
    int wr_errno = 0;
    int wr_chunk = 0;    // >0: short writes of at most this many bytes
    int rd_chunk = 0;    // >0: reads return at most this many bytes
    int rd_err_at = -1;  // read cookie fails at this byte offset
    int rd_errno = 0;
    int bufmode = 0;     // 0 default(full), 1 unbuffered, 2 line, 3 small(16)
    int sys_k = 0;       // the k-th file-system / descriptor call the library makes in this op fails (1-based); 0 = none
    int sys_errno = 0;
    bool any() const {
        return alloc_k || alloc_mask || wr_fail_at >= 0 || wr_chunk || rd_chunk || rd_err_at >= 0 || bufmode || sys_k;
    }
};
struct Op {
    int fn = 0;
    int64_t a[MAXA] = {0, 0, 0, 0, 0, 0, 0, 0, 0, 0};
    std::vector<Blob> blobs; // input data placed into the task arena before the pass
    std::string in;          // scripted input of the op's read stream
    Fault f;
    bool late = false;       // the blobs are written immediately before the call instead of before the pass: the thread
                             // re-uses the buffers of an earlier call of its own for new data
};
struct TaskPlan {
    uint64_t arena_seed = 0;
    int parent = -1; // -1: created by the simulator before the pass starts
    int fe_round = 0; // the thread's floating-point rounding mode (caller state, per thread): 0 nearest, 1 upward, 2 downward, 3 toward zero
    bool edge_end_used = false, edge_start_used = false; // generation only: a buffer already sits at that arena edge
    std::vector<Op> ops;
};
struct Plan {
    int locale = 0; // 0 = "C", 1 = "C.UTF-8"
    std::vector<TaskPlan> tasks;
};

// a context switch, in task-relative coordinates
struct Switch {
    int task;    // the task that gives up the processor
    int op;      // index of its current op (== #ops at task end)
    uint32_t ev; // event index within the op; 0 = boundary before the op
    int target;  // the task that runs next
};
struct Schedule {
    int start = 0;
    std::vector<Switch> sw;
};

struct HCall {
    int hid;  // which handler function ran
    int kind; // 0 = unknown (C12/C20 workloads)
    int code;
    uint64_t msgh;
    int task;     // executing task
    uint64_t seq; // global sequence number
};
struct OpResult {
    bool done = false;
    uint64_t digest = 0;      // everything observable of the call, including the process-wide settings left behind
    uint64_t digest_core = 0; // the same without the settings fingerprint
    uint64_t digest_h = 0;     // digest without errno, with the settings fingerprint (what oracle H compares)
    uint64_t digest_noerr = 0; // ... and without errno (the value errno has after a successful call is unspecified)
    int64_t ret = 0;
    int64_t raw = 0; // the library function's own return value
    bool raw_set = false;
    int err = 0;
    uint32_t nev = 0;     // scheduler events raised inside the op
    uint32_t nalloc = 0;  // allocation requests made by the library inside the op
    uint32_t nfailed = 0; // of which failed by injection
    uint32_t outstanding = 0; // library allocations made in this op and still live at its return
    uint8_t once_allocs = 0;    // allocation requests made inside a one-time initialiser during this call
    uint8_t n_shared_heap = 0;  // how many of the conflict points are accesses to a library heap block that outlives calls
    uint8_t n_edge = 0;        // solo pass: events at which the call touched a machine word it shares with a neighbouring
    uint32_t edge_ev[24] = {0}; // task's memory (or memory beyond its own range): the places where a preemption matters
    uint32_t leaked = 0;      // ... and still live when all threads have ended and run their exit handlers (filled in at the end of the pass)
    uint64_t libc_static = 0; // non-reentrant libc facilities used by the call (bit index: g_libc_static_names)
    uint32_t double_free = 0; // blocks the library released a second time (the second free is not executed)
    uint32_t heap_overrun = 0; // blocks of the library whose red zone was found overwritten (at free / realloc / end of call)
    uint32_t heap_uaf = 0;     // blocks written to after the library released them (found at end of call), or re-used after release
    uint32_t wr_faults = 0, rd_faults = 0, sys_faults = 0;
    std::vector<HCall> hcalls;
    std::vector<int> footprint; // indices into statics symbol table (solo pass only)
    std::vector<uint32_t> sites; // alloc site ids reached
    std::string out;            // captured stream output
    uint64_t arena_hash = 0;
};

// ---------------------------------------------------------------- statics of the loaded library
struct StatSym {
    uintptr_t addr;
    size_t size;
    std::string name, file;
    int sect; // 0 .data, 1 .bss, 2 .tbss
};
struct FuncSym {
    uintptr_t addr;
    size_t size;
    std::string name, file;
};
struct LibImage {
    std::string path;
    uintptr_t base = 0;
    uintptr_t lo[2] = {0, 0}, hi[2] = {0, 0}; // .data, .bss
    std::vector<uint8_t> pristine[2], cur[2];
    std::vector<StatSym> syms;
    std::vector<FuncSym> funcs;
    void init();
    void restore_pristine();            // library statics := image at process start
    void sync_cur();                    // cur := live
    void diff_cur(std::vector<int> &symidx); // live vs cur -> symbols changed; cur := live
    int sym_at(uintptr_t addr);         // index or -1 (creates pseudo symbol for unattributed bytes)
    const FuncSym *func_at(uintptr_t pc) const;
    std::string sym_key(int idx) const; // "<file>:<name>"
};
extern LibImage g_lib;

// ---------------------------------------------------------------- tasks & scheduler
struct Task;
struct Strategy {
    virtual ~Strategy() {}
    // number of events until the next call of at_event for this task (>=1), or 0 for "never in this op"
    virtual uint32_t arm(Task &t) = 0;
    // called when the armed countdown expires (t.ev is current); return target task or -1
    virtual int at_event(Task &t) = 0;
    // boundary before op t.cur_op (t.ev==0): target or -1
    virtual int at_boundary(Task &t) = 0;
    // the running task cannot continue (ended / blocked): must return a runnable task, or -1 if none
    virtual int at_forced(Task &t) = 0;
    virtual int first() = 0;
};

enum TaskState { T_NOTSTARTED, T_RUNNABLE, T_BLOCKED, T_DONE };

struct Arena {
    uint8_t *map = nullptr; // mmap base (guard page first)
    uint8_t *base = nullptr;
    size_t size = 0;
};

struct Task {
    int id = 0;
    const TaskPlan *plan = nullptr;
    pthread_t th{};
    bool th_valid = false;
    sem_t sem;
    TaskState state = T_NOTSTARTED;
    int blocked_on = -1;
    int cur_op = 0;
    uint32_t ev = 0;
    uint32_t countdown = 0;
    bool in_op = false;
    std::vector<OpResult> res;
    Arena arena;
    // per-op fault and stream state
    const Op *op = nullptr;
    uint32_t alloc_count = 0;
    int errno_carry = 0;      // errno as the task's previous call left it (a thread's errno is caller-visible state that carries over)
    int in_once = 0;          // depth of one-time initialisers being run by this task
    uint32_t sys_count = 0;   // file-system / descriptor calls made by the current op so far
    FILE *wr = nullptr, *rd = nullptr;
    size_t wr_bytes = 0, rd_pos = 0;
    uint8_t *alt_stack = nullptr; // simulator code called from inside library calls runs here (see alt_call)
    bool on_alt = false;
    int exit_stage = 0;
    uintptr_t self_id = 0; // pthread_self() as integer
    uintptr_t tls_probe = 0;
};

enum PassMode { PASS_SOLO, PASS_CONC, PASS_NULLOTHERS };

typedef void (*ExecFn)(Task &, const Op &, OpResult &);

struct PassCfg {
    PassMode mode = PASS_CONC;
    int solo_task = -1;     // PASS_SOLO: the only task that runs
    int victim = -1;        // PASS_NULLOTHERS: only this task executes real ops
    bool track_static = false; // compare library statics around every op
    bool fresh_threads = true;
    bool rec_edges = false;  // record OpResult::edge_ev
    bool renew_threads = false; // between two ops of a task, put the library's per-thread state back to that of a new thread
    ExecFn exec = nullptr;
    bool null_event_ops = false;
    std::function<void()> before_tasks; // runs on the simulator thread after reset
};

struct PassResult {
    std::vector<std::vector<OpResult>> res; // [task][op]
    std::vector<Switch> recorded;
    int start = 0;
    uint64_t loghash = 0;
    uint64_t events = 0;
    bool deadlock = false;
};

struct Sim {
    const Plan *plan = nullptr;
    PassCfg cfg;
    Strategy *strat = nullptr;
    std::vector<Task *> tasks;
    int running = -1;
    sem_t main_sem;
    uint64_t seq = 0;   // global sequence number of logged events
    uint64_t events = 0; // total scheduler events in the pass
    Hasher log;
    std::vector<Switch> recorded;
    bool deadlock = false;
    bool in_pass = false;
};
extern Sim g_sim;
extern thread_local Task *t_self;

// Runs fn(arg) on the calling task's alternate stack. Everything the simulator does from inside a
// library call (scheduling, allocation bookkeeping, handler and stream logging) goes through this, so
// that it leaves nothing behind on the stack the library is running on: a library local that is read
// before it is written (undefined, but not the subject of any claimed property) then sees the same
// residue whether or not the call was preempted.
void alt_call(void (*fn)(void *), void *arg);
void sim_global_init(const char *argv0);
size_t lib_tls_size();   // size of the library's thread-local block (0 if it has none)
void lib_thread_renew(); // calling thread: library TLS := initial image; library-created keys destructed and cleared
void run_pass(const Plan &plan, const PassCfg &cfg, Strategy &strat, PassResult &out);
void sim_event();                 // explicit yield point (harness callbacks)
void sim_conflict_point();        // yield point that is also recorded as a conflict point of the current call (solo pass)
void sim_log(uint64_t kind, uint64_t a, uint64_t b); // append to the run's event log
void task_spawn(Task &parent, int child);           // C13
void task_join(Task &self, int child);              // C13
int lowest_runnable(int except);
void sim_switch_to(Task &t, int target);           // workload-driven hand-off (not recorded in the schedule)

// arenas
enum { ARENA_SIZE = 48 * 1024, ARENA_TAIL = 64, ARENA_LO = 4, ARENA_HI = ARENA_SIZE - 4 }; // a task owns offsets [ARENA_LO, ARENA_HI)
void arena_fill(Task &t);

// handler log: harness handlers call this
void note_handler(int hid, int kind, const char *msg, int code, const void *ptr = nullptr);
extern void (*g_handler_after)(int hid);          // called in the handler after logging, on the caller's stack (may re-enter the library)
extern void (*g_handler_hook)(int hid, int code); // called (on the alt stack) for every logged handler invocation
extern "C" void sim_handler_log(const char *msg, void *ptr, int error);   // hid 1 (C12/C20 default registration)

// allocation tracking
struct AllocRec {
    void *p;
    size_t size;
    uint32_t site;
    int task, op;
    bool guarded = false; // followed by a red zone of HEAP_RZ pattern bytes
    bool once = false;    // allocated inside a pthread_once / call_once callback: shared by all later calls
};
enum { HEAP_RZ = 64 };
extern const char *g_libc_static_names[];
extern std::vector<AllocRec> g_live; // library allocations currently outstanding
extern std::vector<void *> g_freed;   // blocks released by the library in this pass and not handed out again since
uint32_t site_id(uintptr_t ret_addr);
std::string site_name(uint32_t id);
extern std::vector<uint64_t> g_site_reached, g_site_failed; // per site id
void load_sites_file(const char *path);

// coverage
extern uint32_t g_nguards;
extern uint8_t *g_covhit;
extern uintptr_t *g_covpc;
std::map<std::string, std::pair<int, int>> coverage_by_function(); // name -> (hit, seen) -- seen==hit (lazy pcs)
bool func_was_hit(const char *name);
void dump_unhit_pcs(const char *path); // library-relative PCs of guards never hit in this process

// strategies (core.cc)
struct ReplayStrategy : Strategy {
    Schedule sch;
    std::vector<std::vector<Switch>> per;
    std::vector<size_t> pos;
    explicit ReplayStrategy(const Schedule &s, int ntasks);
    const Switch *peek(Task &t);
    uint32_t arm(Task &t) override;
    int at_event(Task &t) override;
    int at_boundary(Task &t) override;
    int at_forced(Task &t) override;
    int first() override { return sch.start; }
};
struct RandomStrategy : Strategy {
    Rng rng;
    int kind;          // 0 sequential(random op order), 1 uniform(p), 2 pct(d)
    uint32_t inv_p = 64; // uniform: mean events between preemptions
    std::vector<int> prio;       // pct
    std::vector<uint64_t> change; // pct: global event counts of priority changes
    size_t change_pos = 0;
    uint32_t max_preempt = 64, npreempt = 0;
    RandomStrategy(uint64_t seed, int kind, int ntasks, uint64_t est_events, uint32_t inv_p, int depth);
    uint32_t arm(Task &t) override;
    int at_event(Task &t) override;
    int at_boundary(Task &t) override;
    int at_forced(Task &t) override;
    int first() override;
    int pick_other(int self);
    int pct_best(int except);
};

// json helpers
std::string jstr(const std::string &s);
std::string hexs(const std::string &s);
std::string unhex(const std::string &s);

// crash hook: invoked from the fatal-signal handler / ASan death callback
extern void (*g_crash_hook)(int sig);
extern const char *g_variant;
