// Seeded generation of plans for the whole-API workload, and the replay-file format.
#include "ops.h"
#include <wchar.h>
#include <time.h>
#include <math.h>
#include <algorithm>
#include <sstream>

enum { SAFE_TOP = ARENA_SIZE - 4096 }; // ops never get space above this (overrun slack, see DESIGN 3.4)
enum { MAXSTR = 4096, MAXWSTR = 1024 };
static const int64_t MAXMEM = 256LL << 20;

// ------------------------------------------------------------------ builder
struct Bld {
    Rng &r;
    TaskPlan &tp;
    uint32_t &top;
    Op op;
    bool ok = true;
    int locale;
    int force_edge = 0; // 1: the next destination goes to the end edge, 2: to the start edge (adjacent-data plans)
    bool no_edges = false; // never place a buffer next to another task's memory (C13: what a call does must not depend on its neighbours)
    Bld(Rng &r_, TaskPlan &tp_, uint32_t &top_, int loc) : r(r_), tp(tp_), top(top_), locale(loc) {}
    uint32_t alloc(uint32_t n, uint32_t align) {
        uint32_t o = (top + align - 1) & ~(align - 1);
        uint32_t slack = r.below(4) == 0 ? 0 : r.below(33);
        if (o + n + slack > SAFE_TOP) { ok = false; return 64; }
        top = o + n + slack;
        return o;
    }
    // dest = true: a destination buffer; now and then it is placed flush against the end (or at the very start) of
    // the task's arena, i.e. directly next to another task's memory
    uint32_t put(const std::string &bytes, uint32_t align, uint32_t cap_bytes, bool dest = false) {
        uint32_t n = std::max<uint32_t>(cap_bytes, (uint32_t)bytes.size());
        bool want_end = force_edge == 1 && !tp.edge_end_used, want_start = force_edge == 2 && !tp.edge_start_used;
        if (!no_edges && dest && n >= 1 && n <= 512 && align <= 4 && (ARENA_HI - n) % align == 0 && (want_end || want_start || r.chance(1, 8))) {
            if (!tp.edge_end_used && (want_end || (!want_start && r.chance(2, 3)))) {
                tp.edge_end_used = true;
                uint32_t o = ARENA_HI - n; // ends in the first half of the word shared with the next task
                std::string content = bytes;
                // a third of these buffers hold no terminator at all: whatever the call does then must not depend on
                // what follows the buffer
                if (r.chance(1, 3)) {
                    for (auto &ch : content) if (!ch) ch = 'y';
                    content.resize(n, 'y');
                }
                if (!content.empty()) op.blobs.push_back({o, content});
                return o;
            }
            if (!tp.edge_start_used && n <= 64) {
                tp.edge_start_used = true;
                if (!bytes.empty()) op.blobs.push_back({ARENA_LO, bytes}); // begins in the second half of the word shared with the previous task
                return ARENA_LO;
            }
        }
        uint32_t o = alloc(n, align);
        if (ok && !bytes.empty()) op.blobs.push_back({o, bytes});
        return o;
    }
    uint32_t put_zero(uint32_t n, uint32_t align) { return put(std::string(n, '\0'), align, n); }
    bool commit() {
        if (!ok) return false;
        tp.ops.push_back(op);
        return true;
    }
};

static std::string rstr(Rng &r, int len, int kind) {
    static const char *alpha[] = {
        "abcdefghijklmnopqrstuvwxyz",
        "abcXYZ 012,;. \t",
        "0123456789abcdefABCDEF",
        "aab",
        "Hello World 42 foo_bar-BAZ 7,8;9",
    };
    const char *a = alpha[kind % 5];
    int n = (int)strlen(a);
    std::string s;
    for (int i = 0; i < len; i++) s += a[r.below(n)];
    return s;
}
static std::string wbytes(const std::vector<uint32_t> &w, bool term = true) {
    std::string s;
    for (uint32_t c : w) s.append((const char *)&c, 4);
    if (term) { uint32_t z = 0; s.append((const char *)&z, 4); }
    return s;
}
// a code point from the scripts / blocks the folding and normalisation tables have entries for
static uint32_t uni_cp(Rng &r) {
    static const uint32_t ranges[][2] = {
        {0x41, 0x5a}, {0xc0, 0x17f}, {0x180, 0x24f}, {0x370, 0x3ff}, {0x400, 0x52f}, {0x531, 0x587}, {0x10a0, 0x10ff}, {0x13a0, 0x13fd},
        {0x1e00, 0x1eff}, {0x1f00, 0x1fff}, {0x2100, 0x214f}, {0x2160, 0x2188}, {0x24b6, 0x24e9}, {0x2c00, 0x2cff}, {0xa640, 0xa69f},
        {0xa720, 0xa7ff}, {0xab70, 0xabbf}, {0xfb00, 0xfb17}, {0xff21, 0xff5a}, {0x10400, 0x1044f}, {0x104b0, 0x104ff}, {0x10c80, 0x10cb2},
        {0x118a0, 0x118df}, {0x1e900, 0x1e943}, {0x300, 0x36f}, {0x1100, 0x11ff}, {0xac00, 0xd7a3}, {0xf900, 0xfaff}, {0x2f800, 0x2fa1d},
        {0x1d15e, 0x1d164}, {0x1109a, 0x110ab}, {0x3041, 0x30ff}, {0x900, 0x97f}, {0x9dc, 0x9df}, {0xf43, 0xfb9}, {0x1b06, 0x1b43},
        // compatibility characters with long decompositions (1 -> up to 18)
        {0xfb1d, 0xfb4f}, {0xfdf0, 0xfdfc}, {0x3300, 0x3357}, {0x2460, 0x24b5}, {0x3200, 0x327f}, {0xfe10, 0xfe6b}};
    const uint32_t *rg = ranges[r.below(sizeof ranges / sizeof *ranges)];
    return rg[0] + r.below(rg[1] - rg[0] + 1);
}
static std::vector<uint32_t> rwstr(Rng &r, int len, int kind) {
    std::vector<uint32_t> w;
    if (kind % 5 == 1 || kind % 5 == 2) {
        // half of the "non-ASCII" strings sample the whole table range instead of the small fixed sets
        if (r.chance(1, 2)) {
            for (int i = 0; i < len; i++) w.push_back(r.chance(1, 3) ? (uint32_t)('a' + r.below(26)) : uni_cp(r));
            return w;
        }
    }
    for (int i = 0; i < len; i++) {
        uint32_t c;
        switch (kind % 5) {
        case 0: c = 'a' + r.below(26); break;
        case 1: { static const uint32_t s[] = {'A', 'b', 'Z', ' ', '1', '0', '9', 0xc4, 0xdf, 0xe9, 0x130, 0x3a3, 0x3c3, 0x1e9e, 0xfb01}; c = s[r.below(15)]; break; }
        case 2: { static const uint32_t s[] = {'a', 'e', 'o', 0x300, 0x301, 0x323, 0x30a, 0xc5, 0x1e69, 0xac00, 0x1100, 0x1161, 0x11a8, 0x212b, 'q'}; c = s[r.below(15)]; break; }
        case 3: c = r.below(3) ? (uint32_t)('a' + r.below(3)) : (uint32_t)('0' + r.below(10)); break;
        default: c = 0x20 + r.below(0x5f); break;
        }
        w.push_back(c);
    }
    return w;
}
static std::string utf8(const std::vector<uint32_t> &w) {
    std::string s;
    for (uint32_t c : w) {
        if (c < 0x80) s += (char)c;
        else if (c < 0x800) { s += (char)(0xc0 | (c >> 6)); s += (char)(0x80 | (c & 0x3f)); }
        else if (c < 0x10000) { s += (char)(0xe0 | (c >> 12)); s += (char)(0x80 | ((c >> 6) & 0x3f)); s += (char)(0x80 | (c & 0x3f)); }
        else { s += (char)(0xf0 | (c >> 18)); s += (char)(0x80 | ((c >> 12) & 0x3f)); s += (char)(0x80 | ((c >> 6) & 0x3f)); s += (char)(0x80 | (c & 0x3f)); }
    }
    return s;
}
static std::string narrow_to_wide_fmt(const std::string &f) {
    std::vector<uint32_t> w;
    for (unsigned char c : f) w.push_back(c);
    return wbytes(w);
}

// dmax / bos choice. cap = true capacity in elements, esz = element size in bytes.
// viol: 0 none, else one of the documented violations.
struct Dm {
    int64_t dmax, bos;
};
static Dm pick_dmax(Rng &r, uint32_t cap, uint32_t esz, int64_t rmax, bool viol) {
    Dm d;
    d.dmax = cap;
    d.bos = r.chance(2, 5) ? (int64_t)cap * esz : -1;
    if (viol) {
        switch (r.below(4)) {
        case 0: d.dmax = 0; break;
        case 1: d.dmax = rmax + 1 + r.below(5); d.bos = -1; break;
        case 2: d.bos = (int64_t)cap * esz; d.dmax = cap + 1 + r.below(8); break; // dmax exceeds known object size
        default: d.dmax = cap ? r.below(cap) : 0; break;                          // smaller than needed
        }
    }
    return d;
}
static int pick(Rng &r, std::initializer_list<int> l) { return *(l.begin() + r.below((uint32_t)l.size())); }

// lengths: mostly short, sometimes long -- stack/heap switch-overs typically sit at 64..1024 elements
static int rlen(Rng &r, int shortmax, int longmax) {
    if (r.chance(1, 8)) return 100 + (int)r.below(longmax > 100 ? longmax - 100 : 1);
    return (int)r.below(shortmax);
}

// ------------------------------------------------------------------ family generators
static bool gen_inplace(Bld &b, bool viol) {
    Rng &r = b.r;
    static const int fns[] = {FN_strzero_s, FN_strljustify_s, FN_strremovews_s, FN_strtolowercase_s, FN_strtouppercase_s,
                              FN_strnterminate_s, FN_strisalphanumeric_s, FN_strisascii_s, FN_strisdigit_s, FN_strishex_s,
                              FN_strislowercase_s, FN_strismixedcase_s, FN_strispassword_s, FN_strisuppercase_s,
                              FN_memzero_s, FN_memzero16_s, FN_memzero32_s, FN_wcslwr_s, FN_wcsupr_s, FN_strnlen_s, FN_wcsnlen_s};
    int fn = fns[r.below(sizeof fns / sizeof *fns)];
    b.op.fn = fn;
    int len = r.below(8) == 0 ? 0 : rlen(r, 120, 900);
    int extra = 1 + r.below(40);
    bool wide = fn == FN_wcslwr_s || fn == FN_wcsupr_s || fn == FN_wcsnlen_s;
    uint32_t esz = wide ? 4 : fn == FN_memzero16_s ? 2 : fn == FN_memzero32_s ? 4 : 1;
    uint32_t cap = len + extra;
    std::string bytes = wide ? wbytes(rwstr(r, len, r.below(5)), !r.chance(1, 12)) : rstr(r, len, r.below(5)) + (r.chance(1, 12) ? "x" : std::string(1, '\0'));
    uint32_t off = b.put(bytes, esz == 1 ? 1 : esz, cap * esz, true);
    bool mem = fn == FN_memzero_s || fn == FN_memzero16_s || fn == FN_memzero32_s;
    Dm d = pick_dmax(r, cap, esz, mem ? MAXMEM / esz : (wide ? MAXWSTR : MAXSTR), viol && r.chance(3, 4));
    b.op.a[0] = (viol && r.chance(1, 4)) ? -1 : (int64_t)off;
    b.op.a[1] = d.dmax;
    b.op.a[2] = d.bos;
    return b.commit();
}

static bool gen_copy(Bld &b, bool viol) {
    Rng &r = b.r;
    int fn = pick(r, {FN_strcpy_s, FN_strcat_s, FN_wcscpy_s, FN_wcscat_s, FN_stpcpy_s});
    b.op.fn = fn;
    bool wide = fn == FN_wcscpy_s || fn == FN_wcscat_s;
    bool cat = fn == FN_strcat_s || fn == FN_wcscat_s;
    uint32_t esz = wide ? 4 : 1;
    int slen = rlen(r, 100, 700);
    int dlen = cat ? r.below(60) : r.below(30);
    bool fits = !r.chance(1, 5);
    uint32_t need = (cat ? dlen : 0) + slen + 1;
    uint32_t cap = fits ? need + r.below(40) : std::max<uint32_t>(1, need > 2 ? need - 1 - r.below(need / 2) : 1);
    if (cap < (uint32_t)dlen + 1) cap = dlen + 1;
    std::string dbytes = wide ? wbytes(rwstr(r, dlen, r.below(5))) : rstr(r, dlen, r.below(5)) + std::string(1, '\0');
    uint32_t doff = b.put(dbytes, esz, cap * esz, true);
    int64_t soff;
    bool at_edge = doff <= ARENA_LO || doff + cap * esz >= (uint32_t)ARENA_HI - 8; // operands must stay inside the task's own arena
    if (!at_edge && r.chance(1, 10)) soff = doff + esz * r.below(cap); // overlap inside dest
    else {
        std::string sbytes = wide ? wbytes(rwstr(r, slen, r.below(5))) : rstr(r, slen, r.below(5)) + std::string(1, '\0');
        soff = b.put(sbytes, esz, (uint32_t)sbytes.size());
    }
    Dm d = pick_dmax(r, cap, esz, wide ? MAXWSTR : MAXSTR, viol && r.chance(1, 2));
    b.op.a[0] = (viol && r.chance(1, 6)) ? -1 : (int64_t)doff;
    b.op.a[1] = d.dmax;
    b.op.a[2] = (viol && r.chance(1, 6)) ? -1 : soff;
    b.op.a[3] = d.bos;
    b.op.a[4] = -1;
    b.op.a[5] = fn == FN_stpcpy_s ? (int64_t)b.put_zero(4, 4) : -1;
    return b.commit();
}

static bool gen_ncopy(Bld &b, bool viol) {
    Rng &r = b.r;
    static const int fns[] = {FN_strncpy_s, FN_strncat_s, FN_stpncpy_s, FN_wcsncpy_s, FN_wcsncat_s, FN_strcpyfld_s,
                              FN_strcpyfldin_s, FN_strcpyfldout_s, FN_memcpy_s, FN_memcpy16_s, FN_memcpy32_s, FN_memmove_s,
                              FN_memmove16_s, FN_memmove32_s, FN_wmemcpy_s, FN_wmemmove_s, FN_memccpy_s};
    int fn = fns[r.below(sizeof fns / sizeof *fns)];
    b.op.fn = fn;
    bool widestr = fn == FN_wcsncpy_s || fn == FN_wcsncat_s;
    bool wmem = fn == FN_wmemcpy_s || fn == FN_wmemmove_s;
    bool mem = fn == FN_memcpy_s || fn == FN_memmove_s || fn == FN_memccpy_s;
    bool m16 = fn == FN_memcpy16_s || fn == FN_memmove16_s, m32 = fn == FN_memcpy32_s || fn == FN_memmove32_s;
    uint32_t esz = (widestr || wmem || m32) ? 4 : m16 ? 2 : 1;
    bool cat = fn == FN_strncat_s || fn == FN_wcsncat_s;
    int n = r.below(6) == 0 ? r.below(600) : r.below(90); // units to copy
    int dlen = cat ? r.below(40) : r.below(20);
    bool fits = !r.chance(1, 5);
    uint32_t need = (cat ? dlen : 0) + n + 1;
    uint32_t cap = fits ? need + r.below(40) : std::max<uint32_t>(1, need > 2 ? need - 1 - r.below(need / 2) : 1);
    if (cap < (uint32_t)dlen + 1) cap = dlen + 1;
    std::string dbytes = (widestr || wmem) ? wbytes(rwstr(r, dlen, r.below(5))) : rstr(r, dlen, r.below(5)) + std::string(1, '\0');
    uint32_t doff = b.put(dbytes, esz, cap * esz, true);
    int srclen = n + r.below(20);
    int64_t soff;
    bool at_edge = doff <= ARENA_LO || doff + cap * esz >= (uint32_t)ARENA_HI - 8; // operands must stay inside the task's own arena
    if (!at_edge && r.chance(1, 8)) soff = (int64_t)doff + (int64_t)esz * (r.below(2 * cap + 1)) - (r.chance(1, 2) ? (int64_t)esz * cap : 0); // overlap / adjacency
    else {
        std::string sbytes = (widestr || wmem) ? wbytes(rwstr(r, srclen, r.below(5))) : rstr(r, srclen * esz, r.below(5)) + std::string(1, '\0');
        soff = b.put(sbytes, esz, (uint32_t)sbytes.size());
    }
    if (soff < 64) soff = 64;
    bool anymem = mem || m16 || m32;
    int64_t rmax = anymem ? MAXMEM : wmem ? MAXMEM / 4 : widestr ? MAXWSTR : MAXSTR;
    // dmax is in bytes for mem/mem16/mem32, in elements otherwise
    uint32_t dunit = anymem ? 1 : esz;
    Dm d = pick_dmax(r, cap * esz / dunit, dunit, rmax, viol && r.chance(1, 2));
    b.op.a[0] = (viol && r.chance(1, 8)) ? -1 : (int64_t)doff;
    b.op.a[1] = d.dmax;
    b.op.a[2] = (viol && r.chance(1, 8)) ? -1 : soff;
    b.op.a[3] = (viol && r.chance(1, 6)) ? (r.chance(1, 2) ? 0 : rmax + 1) : n;
    b.op.a[4] = d.bos;
    b.op.a[5] = -1;
    b.op.a[6] = fn == FN_stpncpy_s ? (int64_t)b.put_zero(4, 4) : fn == FN_memccpy_s ? (int64_t)('a' + r.below(26)) : 0;
    return b.commit();
}

static bool gen_fill(Bld &b, bool viol) {
    Rng &r = b.r;
    int fn = pick(r, {FN_memset_s, FN_memset16_s, FN_memset32_s, FN_strset_s, FN_strnset_s, FN_wcsset_s, FN_wcsnset_s});
    b.op.fn = fn;
    bool wide = fn == FN_wcsset_s || fn == FN_wcsnset_s;
    bool str = fn == FN_strset_s || fn == FN_strnset_s;
    uint32_t esz = wide || fn == FN_memset32_s ? 4 : fn == FN_memset16_s ? 2 : 1;
    int len = rlen(r, 100, 700);
    uint32_t cap = len + 1 + r.below(30);
    std::string bytes = wide ? wbytes(rwstr(r, len, 0)) : rstr(r, len * (str ? 1 : esz), 0) + std::string(1, '\0');
    uint32_t off = b.put(bytes, esz, cap * esz, true);
    bool bytesdmax = !(wide || str); // memset*: dmax in bytes
    Dm d = pick_dmax(r, bytesdmax ? cap * esz : cap, bytesdmax ? 1 : esz, bytesdmax ? MAXMEM : wide ? MAXWSTR : MAXSTR, viol && r.chance(1, 2));
    b.op.a[0] = (viol && r.chance(1, 6)) ? -1 : (int64_t)off;
    b.op.a[1] = d.dmax;
    b.op.a[2] = wide ? 0x20 + r.below(0x3000) : r.below(256);
    b.op.a[3] = (viol && r.chance(1, 4)) ? cap * esz + 1 + r.below(9) : r.below(cap + 1);
    b.op.a[4] = d.bos;
    return b.commit();
}

static bool gen_cmp(Bld &b, bool viol) {
    Rng &r = b.r;
    static const int fns[] = {FN_strcmp_s, FN_strcasecmp_s, FN_strnatcmp_s, FN_strcmpfld_s, FN_strcoll_s, FN_strprefix_s,
                              FN_memcmp_s, FN_memcmp16_s, FN_memcmp32_s, FN_wmemcmp_s, FN_wcscmp_s, FN_wcsncmp_s,
                              FN_wcsicmp_s, FN_wcsnatcmp_s, FN_wcscoll_s, FN_timingsafe_bcmp, FN_timingsafe_memcmp,
                              FN_strfirstdiff_s, FN_strlastdiff_s, FN_strfirstsame_s, FN_strlastsame_s};
    int fn = fns[r.below(sizeof fns / sizeof *fns)];
    b.op.fn = fn;
    bool wide = fn == FN_wmemcmp_s || fn == FN_wcscmp_s || fn == FN_wcsncmp_s || fn == FN_wcsicmp_s || fn == FN_wcsnatcmp_s || fn == FN_wcscoll_s;
    uint32_t esz = wide || fn == FN_memcmp32_s ? 4 : fn == FN_memcmp16_s ? 2 : 1;
    int len = 1 + rlen(r, 60, 600);
    int kind = r.below(5);
    std::vector<uint32_t> w1 = rwstr(r, len, fn == FN_wcsicmp_s || fn == FN_wcsnatcmp_s ? 1 + r.below(3) : kind), w2 = w1;
    int rel = r.below(4); // 0 equal, 1 differ at one place, 2 prefix, 3 unrelated
    if (rel == 1 && !w2.empty()) w2[r.below((uint32_t)w2.size())] ^= 1;
    if (rel == 2) w2.resize(r.below((uint32_t)w2.size() + 1));
    if (rel == 3) w2 = rwstr(r, 1 + r.below(60), kind);
    auto enc = [&](const std::vector<uint32_t> &w) {
        if (wide) return wbytes(w);
        std::string s;
        for (uint32_t c : w) {
            if (esz == 1) s += (char)(c < 0x80 && c ? c : 'k');
            else s.append((const char *)&c, esz);
        }
        return s + std::string(esz, '\0');
    };
    uint32_t cap1 = (uint32_t)w1.size() + 1 + r.below(10), cap2 = (uint32_t)w2.size() + 1 + r.below(10);
    uint32_t o1 = b.put(enc(w1), esz, cap1 * esz), o2 = b.put(enc(w2), esz, cap2 * esz);
    bool memlike = fn == FN_memcmp_s || fn == FN_memcmp16_s || fn == FN_memcmp32_s || fn == FN_wmemcmp_s || fn == FN_timingsafe_bcmp || fn == FN_timingsafe_memcmp;
    int64_t rmax = memlike ? MAXMEM / esz : wide ? MAXWSTR : MAXSTR;
    Dm d = pick_dmax(r, cap1, esz, rmax, viol && r.chance(1, 2));
    // the fold buffers of the case-insensitive wide compares are sized from dmax/smax, and the fold loop does not
    // bound its writes (heap overflow, C01): never declare less than the string really occupies
    if ((fn == FN_wcsicmp_s || fn == FN_wcsnatcmp_s) && d.dmax > 0 && d.dmax <= MAXWSTR && d.dmax < (int64_t)w1.size() + 1) d.dmax = cap1;
    b.op.a[0] = (viol && r.chance(1, 8)) ? -1 : (int64_t)o1;
    b.op.a[1] = d.dmax;
    b.op.a[2] = (viol && r.chance(1, 8)) ? -1 : (int64_t)o2;
    b.op.a[3] = memlike ? std::min(cap1, cap2) - (r.chance(1, 2) ? 0 : r.below(std::min(cap1, cap2))) : cap2;
    if (viol && r.chance(1, 6)) b.op.a[3] = r.chance(1, 2) ? 0 : rmax + 1;
    b.op.a[4] = (viol && r.chance(1, 10)) ? -1 : (int64_t)b.put_zero(8, 8);
    b.op.a[5] = d.bos;
    b.op.a[6] = r.chance(1, 3) ? (int64_t)cap2 * esz : -1;
    b.op.a[7] = fn == FN_wcsncmp_s ? r.below(len + 2) : r.below(2);
    if (fn == FN_timingsafe_bcmp || fn == FN_timingsafe_memcmp) { // no NULL checks by contract (OpenBSD API)
        b.op.a[0] = o1;
        b.op.a[2] = o2;
        if (b.op.a[3] > (int64_t)std::min(cap1, cap2)) b.op.a[3] = std::min(cap1, cap2);
    }
    return b.commit();
}

static bool gen_search(Bld &b, bool viol) {
    Rng &r = b.r;
    static const int fns[] = {FN_strstr_s, FN_strcasestr_s, FN_strpbrk_s, FN_strspn_s, FN_strcspn_s, FN_wcsstr_s,
                              FN_strchr_s, FN_strrchr_s, FN_strfirstchar_s, FN_strlastchar_s, FN_memchr_s, FN_memrchr_s};
    int fn = fns[r.below(sizeof fns / sizeof *fns)];
    b.op.fn = fn;
    bool wide = fn == FN_wcsstr_s;
    uint32_t esz = wide ? 4 : 1;
    int len = 1 + rlen(r, 100, 700);
    int kind = pick(r, {0, 1, 3, 4});
    std::vector<uint32_t> hay = rwstr(r, len, kind == 1 ? 4 : kind), nee;
    if (r.chance(1, 2)) {
        uint32_t st = r.below(len), l = 1 + r.below(len - st);
        nee.assign(hay.begin() + st, hay.begin() + st + l);
    } else nee = rwstr(r, 1 + r.below(6), kind == 1 ? 4 : kind);
    auto enc = [&](const std::vector<uint32_t> &w) {
        if (wide) return wbytes(w);
        std::string s;
        for (uint32_t c : w) s += (char)c;
        return s + std::string(1, '\0');
    };
    uint32_t cap1 = len + 1 + r.below(10), cap2 = (uint32_t)nee.size() + 1 + r.below(6);
    uint32_t o1 = b.put(enc(hay), esz, cap1 * esz), o2 = b.put(enc(nee), esz, cap2 * esz);
    bool memlike = fn == FN_memchr_s || fn == FN_memrchr_s;
    Dm d = pick_dmax(r, cap1, esz, memlike ? MAXMEM : wide ? MAXWSTR : MAXSTR, viol && r.chance(1, 2));
    b.op.a[0] = (viol && r.chance(1, 8)) ? -1 : (int64_t)o1;
    b.op.a[1] = d.dmax;
    b.op.a[2] = (viol && r.chance(1, 8)) ? -1 : (int64_t)o2;
    b.op.a[3] = (viol && r.chance(1, 6)) ? (r.chance(1, 2) ? 0 : (int64_t)MAXSTR + 1) : (int64_t)cap2;
    b.op.a[4] = (viol && r.chance(1, 10)) ? -1 : (int64_t)b.put_zero(8, 8);
    b.op.a[5] = d.bos;
    b.op.a[6] = r.chance(1, 3) ? (int64_t)cap2 * esz : -1;
    b.op.a[7] = r.chance(1, 2) ? (int64_t)(hay[r.below(len)] & 0xff) : (viol && r.chance(1, 3) ? 300 : (int64_t)('a' + r.below(26)));
    return b.commit();
}

static bool gen_conv(Bld &b, bool viol) {
    Rng &r = b.r;
    int fn = pick(r, {FN_mbstowcs_s, FN_mbsrtowcs_s, FN_wcstombs_s, FN_wcsrtombs_s, FN_wcrtomb_s, FN_wctomb_s});
    b.op.fn = fn;
    int len = rlen(r, 60, 500);
    bool nonascii = b.locale == 1 ? r.chance(1, 2) : r.chance(1, 6);
    std::vector<uint32_t> w = rwstr(r, len, nonascii ? 1 + r.below(2) : 0);
    b.op.a[0] = (viol && r.chance(1, 8)) ? -1 : (int64_t)b.put_zero(8, 8);
    b.op.a[7] = (int64_t)b.put_zero(8, 8); // mbstate_t
    if (fn == FN_mbstowcs_s || fn == FN_mbsrtowcs_s) {
        std::string mb = utf8(w);
        if (r.chance(1, 10)) mb += "\xff\xfe";
        mb += std::string(1, '\0');
        uint32_t so = b.put(mb, 1, (uint32_t)mb.size());
        uint32_t cap = r.chance(1, 5) ? std::max(1, len / 2) : len + 1 + r.below(10);
        bool query = r.chance(1, 6);
        uint32_t doff = b.put_zero(cap * 4, 4);
        Dm d = pick_dmax(r, cap, 4, MAXWSTR, viol && r.chance(1, 2));
        b.op.a[1] = query ? -1 : (int64_t)doff;
        b.op.a[2] = query ? 0 : d.dmax;
        b.op.a[3] = (viol && r.chance(1, 8)) ? -1 : (int64_t)so;
        b.op.a[4] = r.chance(1, 2) ? (int64_t)cap - 1 : (int64_t)r.below(cap + 3);
        b.op.a[5] = query ? -1 : d.bos;
        b.op.a[6] = (viol && r.chance(1, 10)) ? -1 : 0;
    } else if (fn == FN_wcstombs_s || fn == FN_wcsrtombs_s) {
        uint32_t so = b.put(wbytes(w), 4, (len + 1) * 4);
        uint32_t cap = r.chance(1, 5) ? std::max(1, len / 2) : len * 3 + 1 + r.below(10);
        bool query = r.chance(1, 6);
        uint32_t doff = b.put_zero(cap, 1);
        Dm d = pick_dmax(r, cap, 1, MAXSTR, viol && r.chance(1, 2));
        b.op.a[1] = query ? -1 : (int64_t)doff;
        b.op.a[2] = query ? 0 : d.dmax;
        b.op.a[3] = (viol && r.chance(1, 8)) ? -1 : (int64_t)so;
        b.op.a[4] = r.chance(1, 2) ? (int64_t)cap - 1 : (int64_t)r.below(cap + 3);
        b.op.a[5] = query ? -1 : d.bos;
        b.op.a[6] = (viol && r.chance(1, 10)) ? -1 : 0;
    } else {
        uint32_t cap = 1 + r.below(10);
        bool query = r.chance(1, 6);
        uint32_t doff = b.put_zero(cap, 1);
        Dm d = pick_dmax(r, cap, 1, MAXSTR, viol && r.chance(1, 2));
        b.op.a[1] = query ? -1 : (int64_t)doff;
        b.op.a[2] = query ? 0 : d.dmax;
        b.op.a[3] = pick(r, {'a', 0, 0xe9, 0x3a3, 0x20ac, 0x1f600, 0xd800, 0x7fffffff});
        b.op.a[5] = query ? -1 : d.bos;
    }
    return b.commit();
}

// ---- format strings -------------------------------------------------------
struct FmtArg {
    int cls; // 0 I, 1 D, 2 L, 3 P
    int64_t v;
};
static int64_t dbits(double d) { int64_t v; memcpy(&v, &d, 8); return v; }
// negative values are not used with %g/%G: the engine then emits an indeterminate byte in place of the
// sign (it reads one element past what safec_ftoa wrote after stripping zeros) -- a C11 defect, not decided here
static double some_double(Rng &r) {
    static const double vals[] = {0.0, 1.5, -2.25, 123456.789, 1e10, 4.2e12, 1e-5, 3.0e300, -7.0e15, 0.1, 99999.5, 2.5e9};
    int k = r.below(15);
    if (k == 12) return INFINITY;
    if (k == 13) return -INFINITY;
    if (k == 14) return NAN;
    return vals[k];
}
// appends one directive to fmt; pushes its args. wide: format is for the wide printf family.
// a directive assembled from its parts: repeated flags, width, precision. One in three is long (32..100 bytes: the
// engine hands a copy of the directive to libc, and an implementation may size that copy's storage by its length)
static std::string long_directive(Rng &r, const char *lenmod, const char *convs) {
    std::string d = "%";
    static const char fl[] = "-+ #0";
    int nflags = r.chance(1, 3) ? 26 + r.below(70) : r.below(4);
    for (int i = 0; i < nflags; i++) d += fl[r.below(5)];
    if (r.chance(1, 2)) d += std::to_string(1 + r.below(40));
    if (r.chance(1, 2)) d += "." + std::to_string(r.below(14));
    d += lenmod;
    d += convs[r.below((uint32_t)strlen(convs))];
    return d;
}
static void add_directive(Bld &b, std::string &fmt, std::vector<FmtArg> &args, bool wide, bool stream, int want /* -1 any */) {
    Rng &r = b.r;
    int room = 3 - (int)args.size();
    if (room <= 0) { fmt += "%%"; return; }
    int k = want >= 0 ? want : r.below(12);
    switch (k) {
    case 0: case 1: { // integer
        static const char *d[] = {"%d", "%5d", "%-6d|", "%x", "%#o", "%u", "%05d", "%+d", "%lld", "%zu", "%hhd", "%hd", "%lX", "%#x", "% d", "%.4d",
                                  "%i", "%li", "%lli", "%lu", "%llu", "%hu", "%hhu", "%hhx", "%b", "%#b", "%o", "%X", "%#X", "%ju", "%jd", "%td", "%zd",
                                  "%.0d", "%40d", "%-40d|", "%040d", "% 5d", "%+5i", "%#.8x", "%-#12o|", "%.36d", "%#llx", "%+lld", "%hi", "%hhi"};
        fmt += d[r.below(46)];
        int64_t iv = (int64_t)(int32_t)r.next() % (r.chance(1, 2) ? 1000 : 2000000000);
        if (r.chance(1, 8)) iv = 0;
        if (r.chance(1, 10)) iv = (int64_t)r.next();
        args.push_back({0, iv});
        break;
    }
    case 2: { // char
        fmt += pick(r, {0, 1, 2}) == 0 ? "%c" : r.chance(1, 2) ? "%3c" : "%-4c|";
        args.push_back({0, 'A' + r.below(26)});
        break;
    }
    case 3: case 4: { // narrow string
        static const char *d[] = {"%s", "%10s", "%-10s|", "%.3s", "%12.5s"};
        fmt += d[r.below(5)];
        if (r.chance(1, 14)) args.push_back({3, -1});
        else {
            std::string s = rstr(r, r.below(30), r.below(5)) + std::string(1, '\0');
            args.push_back({3, (int64_t)b.put(s, 1, (uint32_t)s.size())});
        }
        break;
    }
    case 5: { // wide string
        static const char *d[] = {"%ls", "%8ls", "%.5ls", "%-6ls|"};
        fmt += d[r.below(4)];
        if (r.chance(1, 14)) args.push_back({3, -1});
        else {
            bool na = b.locale == 1 ? r.chance(1, 2) : r.chance(1, 5);
            // mostly short; one in six long (an implementation may keep short conversions in an automatic buffer and
            // go to the heap only beyond some threshold: both sides of any such threshold have to be reached)
            uint32_t wl = (!wide && r.chance(1, 6)) ? 40 + r.below(r.chance(1, 3) ? 700 : 120) : r.below(30);
            std::vector<uint32_t> w = rwstr(r, wl, na ? 1 : 0);
            args.push_back({3, (int64_t)b.put(wbytes(w), 4, (uint32_t)(w.size() + 1) * 4)});
        }
        break;
    }
    case 6: case 7: { // double
        static const char *d[] = {"%f", "%.2f", "%10.3f", "%e", "%g", "%G", "%a", "%A", "%.0f", "%#.3g", "%E", "%+.1f", "%012.4f", "%.10e",
                                  // 14.. : more flag / width / precision combinations (same value restrictions as their base forms below)
                                  "%.12f", "%-12.3f|", "%#.0f", "% f", "%+e", "% e", "%-15e|", "%015e", "%.0e", "%-10a|", "%.2a", "%.4g", "%-12g|", "%08.3g", // no sign flags with %g: the sign is emitted from an indeterminate byte (C11 defect)
                                  // 28.. : hex float with the (permitted, meaningless) l modifier
                                  "%la", "%lA", "%.3la", "%-14la|"};
        int di = r.below(32);
        fmt += d[di];
        double dv = some_double(r);
        bool gform = di == 4 || di == 5 || di == 9 || di >= 25;
        bool fform = di <= 2 || di == 8 || di == 11 || di == 12 || (di >= 14 && di <= 17);
        if (gform && dv < 0) dv = -dv;
        // %f of |v| > 1e9 falls through to libc snprintf("%le", (long double)v): a type mismatch that prints
        // indeterminate digits (C11 defect, not decided here) -- no such values for the %f conversions
        if ((fform || di == 9 || di == 27) && (dv > 1e9 || dv < -1e9)) dv = 12345.678;
        // %#g of zero / tiny values indexes the engine's pow10[] table far out of bounds (C02 defect, not decided here)
        if ((di == 9) && !(dv >= 1e-4)) dv = 0.25;
        // %g of zero: the engine derives a huge negative decimal exponent for 0.0 and emits digits that depend on
        // stale stack contents (same family of defect; C11) -- no zeros for the %g forms
        if (gform && dv == 0.0) dv = 0.5;
        args.push_back({1, dbits(dv)});
        break;
    }
    case 8: case 9: { // long double
        static const char *d[] = {"%Lf", "%Le", "%Lg", "%La", "%.3Lf", "%10.2Le", "%LG", "%LA", "%+.1Lf"};
        if (r.chance(2, 3)) fmt += d[r.below(9)];
        else fmt += long_directive(r, "L", "feEgGaA");
        args.push_back({2, dbits(some_double(r))});
        break;
    }
    case 10: { // star width / wide char
        if (room >= 2 && r.chance(1, 2)) {
            static const char *sd[] = {"%*d", "%-*d|", "%.*d", "%.*s", "%*x"};
            int si = r.below(5);
            fmt += sd[si];
            args.push_back({0, si == 0 && r.chance(1, 6) ? -(int64_t)r.below(12) : (int64_t)r.below(20)});
            if (si == 3) {
                std::string s = rstr(r, r.below(30), r.below(5)) + std::string(1, '\0');
                args.push_back({3, (int64_t)b.put(s, 1, (uint32_t)s.size())});
            } else args.push_back({0, (int64_t)r.below(100000)});
        } else if (!stream && !wide) {
            fmt += pick(r, {0, 1, 2}) == 0 ? "%lc" : r.chance(1, 2) ? "%4lc" : "%-4lc|";
            args.push_back({0, pick(r, {'x', 0xe9, 0x3a3, 0x20ac})});
        } else {
            fmt += "%d";
            args.push_back({0, 7});
        }
        break;
    }
    default: { // pointer / percent
        if (r.chance(1, 2)) fmt += "%%";
        else { fmt += "%p"; args.push_back({3, 128 + 8 * (int64_t)r.below(16)}); }
        break;
    }
    }
}
static void store_fmt_args(Bld &b, const std::string &fmt, const std::vector<FmtArg> &args, bool wide) {
    std::string f = wide ? narrow_to_wide_fmt(fmt) : fmt + std::string(1, '\0');
    b.op.a[3] = b.put(f, wide ? 4 : 1, (uint32_t)f.size());
    b.op.a[4] = (int64_t)args.size();
    int64_t cls = 0;
    for (size_t i = 0; i < args.size() && i < 3; i++) {
        cls |= (int64_t)args[i].cls << (2 * i);
        b.op.a[6 + i] = args[i].v;
    }
    b.op.a[5] = cls;
}
static std::string random_format(Bld &b, std::vector<FmtArg> &args, bool wide, bool stream, bool viol) {
    Rng &r = b.r;
    std::string fmt;
    int nd = 1 + r.below(3);
    if (r.chance(1, 10)) nd = 0;
    fmt += rstr(r, r.below(8), 4);
    for (int i = 0; i < nd; i++) {
        add_directive(b, fmt, args, wide, stream, -1);
        fmt += rstr(r, r.below(6), 4);
    }
    if (viol && r.chance(1, 3)) {
        // "%%%n" slips through the library's %n pre-scan and is executed by libc (a C09 defect, not decided here)
        if (!fmt.empty() && fmt.back() == '%') fmt += ' ';
        fmt += r.chance(1, 2) ? "%n" : "%q";
    }
    return fmt;
}

static bool gen_fmt(Bld &b, bool viol, bool wide) {
    Rng &r = b.r;
    int fn = wide ? pick(r, {FN_swprintf_s, FN_vswprintf_s, FN_snwprintf_s, FN_vsnwprintf_s})
                  : pick(r, {FN_sprintf_s, FN_vsprintf_s, FN_snprintf_s, FN_vsnprintf_s});
    b.op.fn = fn;
    std::vector<FmtArg> args;
    std::string fmt = random_format(b, args, wide, false, viol);
    uint32_t cap;
    if (wide) {
        int k = r.below(10);
        cap = k < 5 ? 2 + r.below(60) : k < 7 ? 100 + r.below(300) : k < 9 ? 512 + r.below(200) : 1 + r.below(4);
        // make the output exceed dmax fairly often, to reach the no-space probe
        if (r.chance(2, 5) && args.size() < 3) {
            char tmp[32];
            snprintf(tmp, sizeof tmp, "%%%ud", cap + r.below(40));
            fmt += tmp;
            args.push_back({0, 5});
        }
    } else {
        int k = r.below(10);
        cap = k < 6 ? 8 + r.below(120) : k < 8 ? 1 + r.below(12) : k < 9 ? 200 + r.below(400) : 600 + r.below(3000);
    }
    // %lc first copies the converted character (up to 5 bytes) to the START of dest, whatever dmax is (an unrelated
    // out-of-bounds write, C01): give such calls room, so that it does not spill into the neighbouring operand
    if (!wide && fmt.find("lc") != std::string::npos && cap < 8) cap = 8 + r.below(16);
    uint32_t esz = wide ? 4 : 1;
    std::string init = wide ? wbytes(rwstr(r, std::min<uint32_t>(cap - 1, 5), 0)) : rstr(r, std::min<uint32_t>(cap - 1, 5), 0) + std::string(1, '\0');
    uint32_t doff = b.put(init, esz, cap * esz);
    Dm d = pick_dmax(r, cap, esz, wide ? MAXWSTR : MAXSTR, viol && r.chance(1, 2));
    store_fmt_args(b, fmt, args, wide);
    b.op.a[0] = (viol && r.chance(1, 8)) ? -1 : (int64_t)doff;
    b.op.a[1] = d.dmax;
    b.op.a[2] = d.bos;
    if (viol && r.chance(1, 10)) b.op.a[3] = -1;
    return b.commit();
}

static void stream_faults(Rng &r, Fault &f, bool enable) {
    f.bufmode = r.below(4);
    if (!enable) return;
    if (r.chance(1, 3)) { f.wr_fail_at = r.below(40); f.wr_errno = pick(r, {5 /*EIO*/, 28 /*ENOSPC*/, 9 /*EBADF*/}); }
    if (r.chance(1, 3)) f.wr_chunk = 1 + r.below(7);
}
static bool gen_sfmt(Bld &b, bool viol, bool stdio_ok, bool faults) {
    Rng &r = b.r;
    int fn = stdio_ok && r.chance(1, 3) ? pick(r, {FN_printf_s, FN_vprintf_s, FN_wprintf_s, FN_vwprintf_s})
                                        : pick(r, {FN_fprintf_s, FN_vfprintf_s, FN_fwprintf_s, FN_vfwprintf_s});
    b.op.fn = fn;
    bool wide = fn == FN_fwprintf_s || fn == FN_vfwprintf_s || fn == FN_wprintf_s || fn == FN_vwprintf_s;
    std::vector<FmtArg> args;
    std::string fmt = random_format(b, args, wide, true, viol);
    store_fmt_args(b, fmt, args, wide);
    // fwprintf_s has no NULL-stream check of its own (an unrelated defect, C05): never pass NULL there
    b.op.a[0] = (viol && !g_fn[fn].uses_stdio && fn != FN_fwprintf_s && r.chance(1, 8)) ? -1 : 0;
    if (viol && r.chance(1, 10)) b.op.a[3] = -1;
    stream_faults(r, b.op.f, faults);
    return b.commit();
}

static bool gen_scan(Bld &b, bool viol, bool stdio_ok, bool faults) {
    Rng &r = b.r;
    int grp = r.below(stdio_ok ? 3 : 2);
    int fn = grp == 0 ? pick(r, {FN_sscanf_s, FN_vsscanf_s, FN_swscanf_s, FN_vswscanf_s})
           : grp == 1 ? pick(r, {FN_fscanf_s, FN_vfscanf_s, FN_fwscanf_s, FN_vfwscanf_s})
                      : pick(r, {FN_scanf_s, FN_vscanf_s, FN_wscanf_s, FN_vwscanf_s, FN_gets_s});
    b.op.fn = fn;
    bool wide = fn == FN_swscanf_s || fn == FN_vswscanf_s || fn == FN_fwscanf_s || fn == FN_vfwscanf_s || fn == FN_wscanf_s || fn == FN_vwscanf_s;
    if (fn == FN_gets_s) {
        int len = r.below(60);
        uint32_t cap = r.chance(1, 4) ? std::max(1, len / 2) : len + 2 + r.below(10);
        uint32_t doff = b.put_zero(cap + 2, 1);
        Dm d = pick_dmax(r, cap, 1, MAXSTR, viol && r.chance(1, 2));
        b.op.a[2] = (viol && r.chance(1, 8)) ? -1 : (int64_t)doff;
        b.op.a[3] = d.dmax;
        b.op.a[4] = d.bos;
        b.op.in = rstr(r, len, 4) + (r.chance(1, 6) ? "" : "\n") + rstr(r, r.below(10), 0);
        if (r.chance(1, 10)) b.op.in.clear();
        if (faults) {
            if (r.chance(1, 3)) b.op.f.rd_chunk = 1 + r.below(5);
            if (r.chance(1, 5)) { b.op.f.rd_err_at = r.below(len + 2); b.op.f.rd_errno = 5; }
        }
        b.op.f.bufmode = r.below(4);
        return b.commit();
    }
    static const char *fmts[] = {"%d %d", "%10s %d", "%x", "%f %c", "%5[a-z] %u", "%lf", " %c%c", "%3d%3d%3d", "%20s", "%i,%i"};
    static const char *wfmts[] = {"%d %d", "%10ls %d", "%x", "%f %lc", "%5l[a-z] %u", "%lf", " %lc%lc", "%3d%3d%3d", "%20ls", "%i,%i"};
    int fi = r.below(10);
    std::string fmt = wide ? wfmts[fi] : fmts[fi];
    if (viol && r.chance(1, 3)) fmt += "%n";
    std::string input;
    int ni = 1 + r.below(3);
    for (int i = 0; i < ni; i++) {
        switch (r.below(4)) {
        case 0: input += std::to_string((int)r.below(100000)); break;
        case 1: input += rstr(r, 1 + r.below(12), 0); break;
        case 2: input += "3.25e2"; break;
        default: input += rstr(r, 1 + r.below(4), 2); break;
        }
        input += r.chance(1, 4) ? "," : " ";
    }
    std::string f = wide ? narrow_to_wide_fmt(fmt) : fmt + std::string(1, '\0');
    b.op.a[1] = (viol && r.chance(1, 10)) ? -1 : (int64_t)b.put(f, wide ? 4 : 1, (uint32_t)f.size());
    for (int i = 0; i < 4; i++) b.op.a[2 + i] = b.put_zero(128, 8);
    if (grp == 0) {
        std::string in = wide ? narrow_to_wide_fmt(input) : input + std::string(1, '\0');
        b.op.a[0] = (viol && r.chance(1, 10)) ? -1 : (int64_t)b.put(in, wide ? 4 : 1, (uint32_t)in.size());
    } else {
        b.op.a[0] = (viol && grp == 1 && r.chance(1, 10)) ? -1 : 0;
        b.op.in = input;
        if (r.chance(1, 10)) b.op.in.clear();
        if (faults) {
            if (r.chance(1, 3)) b.op.f.rd_chunk = 1 + r.below(5);
            if (r.chance(1, 5)) { b.op.f.rd_err_at = r.below((uint32_t)input.size() + 1); b.op.f.rd_errno = 5; }
        }
        b.op.f.bufmode = r.below(4);
    }
    return b.commit();
}

static bool gen_tok(Bld &b, bool viol) {
    Rng &r = b.r;
    bool wide = r.chance(1, 3);
    int fn = wide ? FN_wcstok_s : FN_strtok_s;
    uint32_t esz = wide ? 4 : 1;
    int len = rlen(r, 80, 600);
    std::string delims = r.chance(1, 2) ? " ,;" : ",";
    std::vector<uint32_t> w;
    for (int i = 0; i < len; i++) w.push_back(r.chance(1, 4) ? (uint32_t)delims[r.below((uint32_t)delims.size())] : 'a' + r.below(26));
    std::string s, dl;
    if (wide) { s = wbytes(w); std::vector<uint32_t> d(delims.begin(), delims.end()); dl = wbytes(d); }
    else { for (uint32_t c : w) s += (char)c; s += std::string(1, '\0'); dl = delims + std::string(1, '\0'); }
    uint32_t cap = len + 1 + r.below(8);
    uint32_t soff = b.put(s, esz, cap * esz);
    uint32_t doff = b.put(dl, esz, (uint32_t)dl.size());
    int64_t dm = (viol && r.chance(1, 3)) ? (r.chance(1, 2) ? 0 : (int64_t)(wide ? MAXWSTR : MAXSTR) + 1) : (int64_t)cap;
    std::string dmb((const char *)&dm, 8);
    uint32_t dmoff = b.put(dmb, 8, 8);
    uint32_t poff = b.put_zero(8, 8);
    if (!b.ok) return false;
    int calls = 1 + r.below(5);
    std::vector<Blob> blobs = b.op.blobs;
    for (int i = 0; i < calls; i++) {
        Op op;
        op.fn = fn;
        op.a[0] = i == 0 ? (int64_t)soff : -1;
        op.a[1] = (viol && r.chance(1, 12)) ? -1 : (int64_t)dmoff;
        op.a[2] = (viol && r.chance(1, 12)) ? -1 : (int64_t)doff;
        op.a[3] = (viol && r.chance(1, 12)) ? -1 : (int64_t)poff;
        op.a[4] = i == 0 && r.chance(1, 3) ? (int64_t)cap * esz : -1;
        if (i == 0) op.blobs = blobs;
        b.tp.ops.push_back(op);
    }
    return true;
}

static bool gen_time(Bld &b, bool viol) {
    Rng &r = b.r;
    int fn = pick(r, {FN_asctime_s, FN_asctime_s, FN_ctime_s, FN_ctime_s, FN_gmtime_s, FN_localtime_s, FN_strerror_s, FN_strerrorlen_s, FN_getenv_s});
    b.op.fn = fn;
    if (fn == FN_asctime_s || fn == FN_ctime_s) {
        uint32_t cap = r.chance(3, 4) ? 26 + r.below(94) : 120 + r.below(60);
        if (viol && r.chance(1, 3)) cap = 1 + r.below(25);
        uint32_t doff = b.put(rstr(r, 10, 0), 1, cap);
        Dm d = pick_dmax(r, cap, 1, MAXSTR, viol && r.chance(1, 3));
        b.op.a[0] = (viol && r.chance(1, 8)) ? -1 : (int64_t)doff;
        b.op.a[1] = d.dmax;
        b.op.a[3] = d.bos;
        if (fn == FN_asctime_s) {
            struct tm tm;
            memset(&tm, 0, sizeof tm);
            tm.tm_sec = r.below(60); tm.tm_min = r.below(60); tm.tm_hour = r.below(24);
            tm.tm_mday = 1 + r.below(31); tm.tm_mon = r.below(12); tm.tm_year = r.below(300);
            tm.tm_wday = r.below(7); tm.tm_yday = r.below(366); tm.tm_isdst = r.below(2);
            if (viol && r.chance(1, 2)) {
                int *members[] = {&tm.tm_sec, &tm.tm_min, &tm.tm_hour, &tm.tm_mday, &tm.tm_mon, &tm.tm_year, &tm.tm_wday, &tm.tm_yday, &tm.tm_isdst};
                static const int toobig[] = {61, 60, 24, 32, 12, 8100, 7, 366, 2};
                int k = r.below(9);
                *members[k] = r.chance(1, 2) ? -1 - (int)r.below(3) : toobig[k] + (int)r.below(3);
                if (r.chance(1, 8)) tm.tm_gmtoff = r.chance(1, 2) ? -2000000 : 2000000;
            }
            b.op.a[2] = (viol && r.chance(1, 8)) ? -1 : (int64_t)b.put(std::string((const char *)&tm, sizeof tm), 8, sizeof tm);
        } else {
            int64_t tt = r.chance(1, 2) ? (int64_t)r.below(2000000000) : (int64_t)(r.next() % 250000000000ULL);
            if (viol && r.chance(1, 3)) tt = r.chance(1, 2) ? -5 : 400000000000LL;
            b.op.a[2] = (viol && r.chance(1, 8)) ? -1 : (int64_t)b.put(std::string((const char *)&tt, 8), 8, 8);
        }
    } else if (fn == FN_gmtime_s || fn == FN_localtime_s) {
        int64_t tt = r.chance(1, 2) ? (int64_t)r.below(2000000000) : (int64_t)(r.next() % 250000000000ULL);
        if (viol && r.chance(1, 3)) tt = r.chance(1, 2) ? -5 : 400000000000LL;
        b.op.a[0] = (viol && r.chance(1, 6)) ? -1 : (int64_t)b.put(std::string((const char *)&tt, 8), 8, 8);
        b.op.a[1] = (viol && r.chance(1, 6)) ? -1 : (int64_t)b.put_zero(sizeof(struct tm), 8);
    } else if (fn == FN_strerror_s) {
        uint32_t cap = r.chance(1, 4) ? 1 + r.below(12) : 20 + r.below(80);
        uint32_t doff = b.put(rstr(r, 5, 0), 1, cap);
        Dm d = pick_dmax(r, cap, 1, MAXSTR, viol && r.chance(1, 2));
        b.op.a[0] = (viol && r.chance(1, 8)) ? -1 : (int64_t)doff;
        b.op.a[1] = d.dmax;
        b.op.a[2] = r.chance(1, 2) ? (int)r.below(134) : pick(r, {0, 1, 2, 12, 22, 34, 110, 400, 401, 403, 406, 410, 9999, -1});
        b.op.a[3] = d.bos;
    } else if (fn == FN_strerrorlen_s) {
        b.op.a[0] = r.chance(1, 2) ? (int)r.below(134) : pick(r, {0, 1, 2, 12, 22, 34, 110, 400, 401, 403, 406, 410, 9999, -1});
    } else {
        static const char *names[] = {"TZ", "VERIF_ENV_A", "VERIF_ENV_LONG", "NOPE_NOT_SET", "", "VERIF_ENV_HUGE", "VERIF_ENV_HUGE"};
        std::string nm = names[r.below(7)];
        nm += std::string(1, '\0');
        uint32_t cap = r.chance(1, 3) ? 1 + r.below(4) : r.chance(1, 2) ? 16 + r.below(80) : 300 + r.below(900);
        uint32_t doff = b.put(rstr(r, 3, 0), 1, cap);
        Dm d = pick_dmax(r, cap, 1, MAXSTR, viol && r.chance(1, 2));
        b.op.a[0] = r.chance(1, 6) ? -1 : (int64_t)b.put_zero(8, 8);
        b.op.a[1] = (viol && r.chance(1, 8)) ? -1 : (int64_t)doff;
        b.op.a[2] = d.dmax;
        b.op.a[3] = (viol && r.chance(1, 8)) ? -1 : (int64_t)b.put(nm, 1, (uint32_t)nm.size());
        b.op.a[4] = d.bos;
    }
    return b.commit();
}

static bool gen_sort(Bld &b, bool viol) {
    Rng &r = b.r;
    bool bs = r.chance(1, 4);
    b.op.fn = bs ? FN_bsearch_s : FN_qsort_s;
    uint32_t size = r.chance(1, 3) ? 257 + r.below(44) : r.chance(1, 2) ? 1 + r.below(16) : 1 + r.below(256);
    uint32_t nmemb = r.chance(1, 10) ? 0 : 3 + r.below(r.chance(1, 5) ? 198 : 40);
    while ((uint64_t)size * nmemb > 10 * 1024) nmemb /= 2;
    uint32_t klen = std::min<uint32_t>(size, 1 + r.below(4));
    std::string arr;
    std::vector<std::string> el;
    for (uint32_t i = 0; i < nmemb; i++) {
        std::string e = rstr(r, klen, 3);
        // the rest of the element identifies it (so corruption of the payload is visible)
        for (uint32_t k = klen; k < size; k++) e += (char)('A' + (i * 7 + k) % 26);
        el.push_back(e);
    }
    if (bs) std::sort(el.begin(), el.end(), [&](const std::string &x, const std::string &y) { return memcmp(x.data(), y.data(), klen) < 0; });
    for (auto &e : el) arr += e;
    uint32_t boff = b.put(arr, 1, std::max<uint32_t>(1, size * nmemb));
    struct { uint32_t klen, calls; } ctx = {klen, 0};
    uint32_t coff = b.put(std::string((const char *)&ctx, 8), 4, 8);
    int64_t bos = r.chance(1, 3) ? (int64_t)size * nmemb : -1;
    if (viol && r.chance(1, 3)) bos = (int64_t)size * nmemb / 2;
    if (!bs) {
        b.op.a[0] = (viol && r.chance(1, 6)) ? -1 : (int64_t)boff;
        b.op.a[1] = (viol && r.chance(1, 6)) ? MAXMEM + 1 : (int64_t)nmemb;
        b.op.a[2] = size;
        b.op.a[3] = (viol && r.chance(1, 6)) ? 1 : 0;
        b.op.a[4] = coff;
        b.op.a[5] = bos;
    } else {
        std::string key = nmemb && r.chance(1, 2) ? el[r.below(nmemb)] : rstr(r, size, 3);
        b.op.a[0] = (viol && r.chance(1, 6)) ? -1 : (int64_t)b.put(key, 1, size);
        b.op.a[1] = (viol && r.chance(1, 6)) ? -1 : (int64_t)boff;
        b.op.a[2] = (viol && r.chance(1, 6)) ? MAXMEM + 1 : (int64_t)nmemb;
        b.op.a[3] = size;
        b.op.a[4] = (viol && r.chance(1, 6)) ? 1 : 0;
        b.op.a[5] = coff;
        b.op.a[6] = bos;
    }
    return b.commit();
}

static std::vector<uint32_t> uni_string(Rng &r, int flavour) {
    std::vector<uint32_t> w;
    switch (flavour) {
    case 0: w = rwstr(r, r.below(40), 1); break;
    case 1: w = rwstr(r, r.below(40), 2); break;
    case 2: { // long: scratch on the heap (len + 2 >= 128)
        w = rwstr(r, 126 + r.below(80), r.chance(1, 2) ? 0 : 2);
        break;
    }
    case 3: { // starter + many combining marks (heap growth of the sequence buffer)
        static const uint32_t marks[] = {0x300, 0x301, 0x302, 0x323, 0x316, 0x31b, 0x327, 0x328, 0x345, 0x308};
        int n = pick(r, {11, 12, 16, 21, 25, 40});
        w.push_back(r.chance(1, 2) ? 'q' : 'a');
        if (r.chance(1, 2)) {
            // as in real text: the marks are in canonical order already, except for (at most) one inversion at a random
            // place - two sorted runs one after the other ("is it sorted yet" shortcuts, incremental sorting)
            static const struct { uint32_t cp; int cc; } mk[] = {{0x334, 1}, {0x335, 1}, {0x321, 202}, {0x327, 202}, {0x328, 202}, {0x31b, 216}, {0x316, 220},
                {0x317, 220}, {0x323, 220}, {0x324, 220}, {0x300, 230}, {0x301, 230}, {0x302, 230}, {0x308, 230}, {0x30a, 230}, {0x315, 232}, {0x35c, 233}, {0x35d, 234}, {0x345, 240}};
            n = 11 + r.below(36);
            int k = 1 + r.below(n - 1);
            std::vector<int> a, c;
            for (int i = 0; i < k; i++) a.push_back(r.below(19));
            for (int i = k; i < n; i++) c.push_back(r.below(19));
            std::sort(a.begin(), a.end());
            std::sort(c.begin(), c.end());
            for (int i : a) w.push_back(mk[i].cp);
            for (int i : c) w.push_back(mk[i].cp);
        } else
        for (int i = 0; i < n; i++) w.push_back(r.chance(1, 3) ? 0x300 : marks[r.below(10)]);
        if (r.chance(1, 2)) { w.push_back('z'); w.push_back(0x301); }
        break;
    }
    default: w = rwstr(r, r.below(20), 0); break;
    }
    return w;
}
static bool gen_uni(Bld &b, bool viol, int force_flavour = -1) {
    Rng &r = b.r;
    int fn = pick(r, {FN_towfc_s, FN_iswfc, FN_wcsfc_s, FN_wcsfc_s, FN_wcsnorm_s, FN_wcsnorm_s, FN_wcsnorm_s, FN_wcsnorm_decompose_s, FN_wcsnorm_reorder_s, FN_wcsnorm_compose_s});
    if (force_flavour >= 0) fn = pick(r, {FN_wcsnorm_s, FN_wcsnorm_s, FN_wcsnorm_reorder_s, FN_wcsnorm_compose_s});
    b.op.fn = fn;
    if (fn == FN_iswfc) { b.op.a[0] = r.chance(1, 2) ? (int64_t)uni_cp(r) : pick(r, {'a', 'A', 0xdf, 0x130, 0x3a3, 0x1e9e, 0xfb01, 0x10400, 0x1f88}); return b.commit(); }
    if (fn == FN_towfc_s) {
        uint32_t cap = viol && r.chance(1, 2) ? 1 + r.below(3) : 4 + r.below(6);
        uint32_t doff = b.put_zero(cap * 4, 4);
        Dm d = pick_dmax(r, cap, 4, MAXWSTR, viol && r.chance(1, 2));
        b.op.a[0] = (viol && r.chance(1, 8)) ? -1 : (int64_t)doff;
        b.op.a[1] = d.dmax;
        b.op.a[2] = r.chance(1, 2) ? (int64_t)uni_cp(r) : pick(r, {'a', 'A', 0xdf, 0x130, 0x3a3, 0x1e9e, 0xfb01, 0x10400, 0x1f88, 0x390});
        b.op.a[3] = d.bos;
        return b.commit();
    }
    int fl = force_flavour >= 0 ? force_flavour : r.below(5);
    std::vector<uint32_t> w = uni_string(r, fl);
    uint32_t len = (uint32_t)w.size();
    uint32_t soff = b.put(wbytes(w), 4, (len + 1) * 4);
    bool tight = r.chance(1, 5) && fn != FN_wcsfc_s;
    uint32_t cap = tight ? 1 + r.below(len + 1) : len * 4 + 8 + r.below(20);
    if (cap > MAXWSTR) cap = MAXWSTR;
    uint32_t doff = b.put(wbytes(rwstr(r, 3, 0)), 4, cap * 4);
    Dm d = pick_dmax(r, cap, 4, MAXWSTR, viol && r.chance(1, 2));
    b.op.a[0] = (viol && r.chance(1, 8)) ? -1 : (int64_t)doff;
    b.op.a[1] = d.dmax;
    b.op.a[2] = (viol && r.chance(1, 8)) ? -1 : (int64_t)soff;
    b.op.a[5] = d.bos;
    int64_t lenv = len;
    switch (fn) {
    case FN_wcsfc_s:
        // the fold loop does not bound its multi-character expansions (C01): keep room for them
        if (b.op.a[1] > 0 && b.op.a[1] <= MAXWSTR && b.op.a[1] < (int64_t)len * 3 + 4) b.op.a[1] = cap;
        b.op.a[3] = r.chance(1, 6) ? -1 : (int64_t)b.put_zero(8, 8);
        b.op.a[4] = d.bos;
        break;
    case FN_wcsnorm_s:
        b.op.a[3] = r.below(viol ? 6 : 4);
        b.op.a[4] = r.chance(1, 6) ? -1 : (int64_t)b.put_zero(8, 8);
        break;
    case FN_wcsnorm_decompose_s:
        b.op.a[3] = r.chance(1, 8);
        b.op.a[4] = r.chance(1, 6) ? -1 : (int64_t)b.put_zero(8, 8);
        break;
    case FN_wcsnorm_reorder_s: // internal stage: no NULL / zero checks of its own
        b.op.a[0] = doff;
        b.op.a[2] = soff;
        if (b.op.a[1] == 0 || b.op.a[1] > MAXWSTR) b.op.a[1] = cap;
        b.op.a[3] = len;
        if (tight) b.op.a[1] = std::max<uint32_t>(1, len - r.below(3)); // runs out at the flush of a sequence
        break;
    default: // compose
        b.op.a[2] = soff; // src == NULL: pointer arithmetic on NULL before the check, and SIZE_MAX elements cleared when the object size is unknown (C01/C02)
        b.op.a[3] = r.chance(1, 3);
        b.op.a[4] = (int64_t)b.put(std::string((const char *)&lenv, 8), 8, 8); // lenp == NULL is dereferenced before it is checked (unrelated defect)
        if (b.op.a[1] == 0) b.op.a[1] = 1; // dmax == 0 is not rejected by this stage (an unrelated defect, C01/C05)
        if (b.op.a[1] > 1 && b.op.a[1] <= MAXWSTR && b.op.a[1] < (int64_t)len + 2) b.op.a[1] = std::max<uint32_t>(cap, len + 2); // too-small dmax > 1: unbounded memcpy (C01)
        if (tight) b.op.a[1] = 1; // larger-but-too-small dmax values run into an unrelated out-of-bounds defect (C01) of this stage
        break;
    }
    return b.commit();
}

static bool gen_file(Bld &b, bool viol, bool faults) {
    Rng &r = b.r;
    int fn = pick(r, {FN_fopen_s, FN_freopen_s, FN_tmpfile_s, FN_tmpfile_s});
    b.op.fn = fn;
    // one of the file-system / descriptor calls the library makes on the way fails
    if (faults && r.chance(1, 3)) { b.op.f.sys_k = 1 + r.below(r.chance(1, 2) ? 2 : 6); b.op.f.sys_errno = pick(r, {12 /*ENOMEM*/, 24 /*EMFILE*/, 13 /*EACCES*/, 5 /*EIO*/, 28 /*ENOSPC*/}); }
    if (fn == FN_tmpfile_s) { b.op.a[0] = (viol && r.chance(1, 3)) ? -1 : 0; return b.commit(); }
    b.op.a[0] = r.chance(3, 4) ? 0 : r.below(4);
    if (viol && r.chance(1, 3)) b.op.a[0] = 1; // a path that does not exist: the libc call fails, which is reported through the handler
    b.op.a[1] = r.chance(3, 4) ? r.below(2) : r.below(5);
    if (!viol) { if (b.op.a[0] == 2) b.op.a[0] = 0; if (b.op.a[1] == 2 || b.op.a[1] == 3) b.op.a[1] = 0; }
    b.op.a[2] = (viol && r.chance(1, 6)) ? -1 : 0;
    b.op.a[3] = (viol && r.chance(1, 6)) ? -1 : 0;
    return b.commit();
}

// ---- C20: ops that reach the allocation sites ------------------------------
bool gen_alloc_op(Rng &r, TaskPlan &tp, uint32_t *top, int locale) {
    Bld b(r, tp, *top, locale);
    int k = r.below(12);
    if (k < 4) { // narrow printf: %L? / %a slices, %ls
        bool stream = r.chance(1, 3);
        b.op.fn = stream ? pick(r, {FN_fprintf_s, FN_vfprintf_s, FN_printf_s})
                         : pick(r, {FN_sprintf_s, FN_vsprintf_s, FN_snprintf_s, FN_vsnprintf_s});
        std::vector<FmtArg> args;
        std::string fmt = rstr(r, r.below(5), 4);
        int nd = 1 + r.below(3);
        for (int i = 0; i < nd; i++) {
            int want = pick(r, {5, 5, 8, 9, 6, 3});
            size_t before = fmt.size();
            add_directive(b, fmt, args, false, stream, want);
            if (want == 6 && args.size() && args.back().cls == 1) { // force %a for doubles (the only double path that allocates)
                fmt.resize(before);
                fmt += r.chance(1, 4) ? "%a" : r.chance(1, 3) ? "%.3A" : r.chance(1, 2) ? long_directive(r, "", "aA") : long_directive(r, "l", "aA"); // (l has no effect on a following a)
            }
            fmt += i + 1 < nd || r.chance(4, 5) ? rstr(r, 1 + r.below(4), 4) : "";
        }
        store_fmt_args(b, fmt, args, false);
        if (stream) {
            b.op.a[0] = 0;
            b.op.f.bufmode = 1 + r.below(3);
            if (r.chance(1, 2)) { b.op.f.wr_fail_at = r.below(24); b.op.f.wr_errno = 28; }
            if (r.chance(1, 4)) b.op.f.wr_chunk = 1 + r.below(4);
        } else {
            uint32_t cap = r.chance(1, 3) ? 2 + r.below(12) : r.chance(1, 4) ? 300 + r.below(3000) : 40 + r.below(200);
            uint32_t doff = b.put(rstr(r, 1, 0) + std::string(1, '\0'), 1, cap);
            b.op.a[0] = doff;
            b.op.a[1] = cap;
            b.op.a[2] = r.chance(1, 3) ? (int64_t)cap : -1;
        }
        return b.commit();
    }
    if (k < 6) { // wide printf, dmax >= 512, output does not fit
        b.op.fn = pick(r, {FN_swprintf_s, FN_vswprintf_s, FN_snwprintf_s, FN_vsnwprintf_s});
        uint32_t cap = 512 + r.below(300);
        std::vector<FmtArg> args;
        std::string fmt = rstr(r, r.below(5), 4);
        if (r.chance(1, 2)) add_directive(b, fmt, args, true, false, pick(r, {0, 3, 6}));
        bool fits = r.chance(1, 5);
        char tmp[32];
        snprintf(tmp, sizeof tmp, "%%%ud", fits ? cap / 2 : cap + r.below(60));
        fmt += tmp;
        args.push_back({0, 42});
        store_fmt_args(b, fmt, args, true);
        uint32_t doff = b.put(wbytes(rwstr(r, 3, 0)), 4, cap * 4);
        b.op.a[0] = doff;
        b.op.a[1] = cap;
        b.op.a[2] = r.chance(1, 3) ? (int64_t)cap * 4 : -1;
        return b.commit();
    }
    if (k < 10) return gen_uni(b, false, r.chance(1, 2) ? 3 : 2);
    // case-insensitive wide compares: two fold buffers
    b.op.fn = r.chance(1, 2) ? FN_wcsicmp_s : FN_wcsnatcmp_s;
    std::vector<uint32_t> w1 = rwstr(r, 1 + r.below(40), 1 + r.below(3)), w2 = r.chance(1, 2) ? w1 : rwstr(r, 1 + r.below(40), 1 + r.below(3));
    // a string whose folding fails: an unassigned / invalid code point
    uint32_t c1 = (uint32_t)w1.size() + 1 + r.below(4), c2 = (uint32_t)w2.size() + 1 + r.below(4);
    // a fold that fails cleanly: twice the declared size exceeds RSIZE_MAX_WSTR (first or second buffer)
    if (r.chance(1, 4)) { if (r.chance(1, 2)) c1 = 513 + r.below(80); else c2 = 513 + r.below(80); }
    b.op.a[0] = b.put(wbytes(w1), 4, c1 * 4);
    b.op.a[1] = c1;
    b.op.a[2] = b.put(wbytes(w2), 4, c2 * 4);
    b.op.a[3] = c2;
    b.op.a[4] = b.put_zero(8, 8);
    b.op.a[5] = r.chance(1, 3) ? (int64_t)c1 * 4 : -1;
    b.op.a[6] = r.chance(1, 3) ? (int64_t)c2 * 4 : -1;
    b.op.a[7] = 1;
    return b.commit();
}

bool gen_op(Rng &r, int fam, TaskPlan &tp, uint32_t *top, const GenCfg &cfg, bool stdio_ok, int locale) {
    Bld b(r, tp, *top, locale);
    b.force_edge = cfg.force_edge;
    b.no_edges = cfg.no_edges;
    bool viol = cfg.violations && (cfg.force_violation || r.chance(1, 6));
    if (cfg.force_edge) viol = false;
    bool ok;
    switch (fam) {
    case FAM_INPLACE: ok = gen_inplace(b, viol); break;
    case FAM_COPY: ok = gen_copy(b, viol); break;
    case FAM_NCOPY: ok = gen_ncopy(b, viol); break;
    case FAM_FILL: ok = gen_fill(b, viol); break;
    case FAM_CMP: ok = gen_cmp(b, viol); break;
    case FAM_SEARCH: ok = gen_search(b, viol); break;
    case FAM_CONV: ok = gen_conv(b, viol); break;
    case FAM_FMT: ok = gen_fmt(b, viol, false); break;
    case FAM_WFMT: ok = gen_fmt(b, viol, true); break;
    case FAM_SFMT: ok = gen_sfmt(b, viol, stdio_ok, cfg.faults); break;
    case FAM_SCAN: ok = gen_scan(b, viol, stdio_ok, cfg.faults); break;
    case FAM_TOK: ok = gen_tok(b, viol); break;
    case FAM_TIME: ok = gen_time(b, viol); break;
    case FAM_SORT: ok = gen_sort(b, viol); break;
    case FAM_UNI: ok = gen_uni(b, viol); break;
    default: ok = gen_file(b, viol, cfg.faults); break;
    }
    if (ok && cfg.faults && !tp.ops.empty()) {
        // allocation failures attached to ops of the families that allocate
        Op &op = tp.ops.back();
        if ((fam == FAM_FMT || fam == FAM_WFMT || fam == FAM_SFMT || fam == FAM_UNI || fam == FAM_CMP) && r.chance(1, 8)) {
            op.f.alloc_k = 1 + r.below(3);
            op.f.alloc_mode = r.below(2);
        }
    }
    return ok;
}

// new contents for a cloned call, same layout: letters become other letters in text operands; in narrow format strings
// a digit of a width / precision becomes another digit and the conversion of a long-double directive another one of
// its class (those go to libc whatever the value); blobs holding binary data or other format strings stay as they are
static void mutate_clone(Rng &r, Op &op) {
    Fam fam = g_fn[op.fn].fam;
    bool narrow_fmt = fam == FAM_FMT || (fam == FAM_SFMT && (op.fn == FN_fprintf_s || op.fn == FN_vfprintf_s || op.fn == FN_printf_s || op.fn == FN_vprintf_s));
    for (Blob &bl : op.blobs) {
        std::string &b = bl.bytes;
        if (b.empty()) continue;
        bool has_pct = false, texty = true, widey = b.size() % 4 == 0;
        for (size_t i = 0; i < b.size(); i++) {
            unsigned char ch = (unsigned char)b[i];
            if (ch == '%') has_pct = true;
            if (ch != 0 && (ch < 0x20 || ch > 0x7e)) texty = false;
        }
        if (widey)
            for (size_t i = 0; i + 4 <= b.size(); i += 4) {
                uint32_t cp;
                memcpy(&cp, &b[i], 4);
                if (cp >= 0x110000) widey = false;
                if (cp == '%') has_pct = true;
            }
        if (narrow_fmt && (int64_t)bl.off == op.a[3] && texty) {
            // the format string
            for (size_t i = 0; i + 1 < b.size(); i++) {
                if (b[i] != '%') continue;
                size_t j = i + 1;
                while (j < b.size() && strchr("-+ #0123456789.", b[j]) && b[j]) j++;
                // digits of width / precision (not a leading 0 flag, not the first digit of a number: keeps it non-zero)
                for (size_t k = i + 1; k < j; k++)
                    if (b[k] >= '1' && b[k] <= '9' && r.chance(1, 2)) b[k] = (char)('1' + r.below(9));
                if (j + 1 < b.size() && b[j] == 'L' && strchr("feEgGaA", b[j + 1]) && b[j + 1] && r.chance(1, 2)) b[j + 1] = "feEgGaA"[r.below(7)];
                i = j;
            }
            continue;
        }
        if (has_pct || !(texty || widey) || !r.chance(2, 3)) continue;
        size_t step = texty ? 1 : 4;
        int nmut = 1 + r.below(3);
        for (int m = 0; m < nmut; m++) {
            size_t i = (size_t)r.below((uint32_t)(b.size() / step)) * step;
            unsigned char ch = (unsigned char)b[i];
            bool single = texty || (b[i + 1] == 0 && b[i + 2] == 0 && b[i + 3] == 0);
            if (!single) continue;
            if (ch >= 'a' && ch <= 'z') b[i] = (char)('a' + r.below(26));
            else if (ch >= 'A' && ch <= 'Z') b[i] = (char)('A' + r.below(26));
        }
    }
}

void gen_plan(Rng &r, const GenCfg &cfg, Plan &plan) {
    plan.tasks.clear();
    plan.locale = r.chance(1, 2);
    int stdio_task = cfg.allow_stdio ? (int)r.below(cfg.ntasks) : -1;
    // 70%: all tasks draw from the same (small) family subset so that two users of one object meet
    std::vector<int> fams = cfg.fams;
    for (int t = 0; t < cfg.ntasks; t++) {
        TaskPlan tp;
        tp.arena_seed = r.next();
        uint32_t top = 64;
        int nops = 1 + r.below(cfg.max_ops);
        Rng tr = r.sub(1000 + t);
        // one thread in six runs with a rounding mode other than the default: per-thread caller state that the library
        // must neither change nor capture for others
        { Rng fr = r.sub(2000 + t); if (fr.chance(1, 6)) tp.fe_round = 1 + fr.below(3); }
        for (int i = 0; i < nops && (int)tp.ops.size() < cfg.max_ops + 4; i++) {
            int fam = fams[tr.below((uint32_t)fams.size())];
            GenCfg c2 = cfg;
            // adjacent-data plans: task t's first destination ends right before task t+1's first destination begins
            if (cfg.adjacent && i == 0) c2.force_edge = (t % 2 == 0) ? 1 : 2;
            if (cfg.alloc_focus) { if (!gen_alloc_op(tr, tp, &top, plan.locale)) break; }
            else if (!gen_op(tr, fam, tp, &top, c2, t == stdio_task, plan.locale)) break;
        }
        // buffer re-use inside a thread: a later call on the very same buffers (same addresses, same sizes) as an earlier
        // call of this task, with different contents - what a loop that rebuilds its format / input in place does.
        // Anything the library remembers by address or length rather than by value shows here.
        if (cfg.reuse && !tp.ops.empty() && tr.chance(1, 4)) {
            int nclone = 1 + tr.below(2);
            for (int c = 0; c < nclone && (int)tp.ops.size() < cfg.max_ops + 6; c++) {
                Op cl = tp.ops[tr.below((uint32_t)tp.ops.size())];
                if (cl.fn < 0 || cl.fn >= FN_COUNT) continue;
                cl.late = true;
                mutate_clone(tr, cl);
                tp.ops.push_back(cl);
            }
        }
        r.next();
        plan.tasks.push_back(tp);
    }
}

// ------------------------------------------------------------------ replay text format
std::string plan_to_text(const Plan &p) {
    std::ostringstream o;
    o << "locale " << p.locale << "\n";
    for (size_t t = 0; t < p.tasks.size(); t++) {
        o << "task " << t << " arena_seed " << p.tasks[t].arena_seed << " parent " << p.tasks[t].parent << "\n";
        if (p.tasks[t].fe_round) o << "fe " << p.tasks[t].fe_round << "\n";
        for (const Op &op : p.tasks[t].ops) {
            if (op.fn >= 0 && op.fn < FN_COUNT) o << "op " << g_fn[op.fn].name;
            else o << "op #" << op.fn;
            for (int i = 0; i < MAXA; i++) o << " " << (long long)op.a[i];
            o << "\n";
            if (op.late) o << "late 1\n";
            for (const Blob &bl : op.blobs) o << "blob " << bl.off << " " << (bl.bytes.empty() ? "-" : hexs(bl.bytes)) << "\n";
            if (!op.in.empty()) o << "in " << hexs(op.in) << "\n";
            const Fault &f = op.f;
            if (f.any())
                o << "fault " << f.alloc_k << " " << f.alloc_mode << " " << f.alloc_k2 << " " << f.wr_fail_at << " " << f.wr_errno << " "
                  << f.wr_chunk << " " << f.rd_chunk << " " << f.rd_err_at << " " << f.rd_errno << " " << f.bufmode << " " << (unsigned long long)f.alloc_mask << " " << f.sys_k << " " << f.sys_errno << "\n";
        }
    }
    return o.str();
}
std::string sched_to_text(const Schedule &s) {
    std::ostringstream o;
    o << "start " << s.start << "\n";
    for (auto &w : s.sw) o << "sw " << w.task << " " << w.op << " " << w.ev << " " << w.target << "\n";
    return o.str();
}
bool parse_replay(const std::string &text, std::map<std::string, std::string> &meta, Plan &p, Schedule &s) {
    std::istringstream in(text);
    std::string line;
    p = Plan();
    s = Schedule();
    TaskPlan *tp = nullptr;
    Op *op = nullptr;
    while (std::getline(in, line)) {
        if (line.empty() || line[0] == '#') continue;
        std::istringstream ls(line);
        std::string kw;
        ls >> kw;
        if (kw == "locale") ls >> p.locale;
        else if (kw == "task") {
            int id;
            std::string k1, k2;
            TaskPlan t;
            ls >> id >> k1 >> t.arena_seed >> k2 >> t.parent;
            p.tasks.push_back(t);
            tp = &p.tasks.back();
            op = nullptr;
        } else if (kw == "fe" && tp) {
            ls >> tp->fe_round;
        } else if (kw == "op" && tp) {
            std::string nm;
            ls >> nm;
            Op o;
            o.fn = fn_by_name(nm.c_str());
            if (o.fn < 0) {
                // property-specific op tables (C13) use numeric function ids
                o.fn = atoi(nm.c_str() + (nm[0] == '#' ? 1 : 0));
            }
            for (int i = 0; i < MAXA; i++) { long long v = 0; ls >> v; o.a[i] = v; }
            tp->ops.push_back(o);
            op = &tp->ops.back();
        } else if (kw == "blob" && op) {
            Blob b;
            std::string hx;
            ls >> b.off >> hx;
            b.bytes = hx == "-" ? std::string() : unhex(hx);
            op->blobs.push_back(b);
        } else if (kw == "late" && op) {
            int v = 0;
            ls >> v;
            op->late = v != 0;
        } else if (kw == "in" && op) {
            std::string hx;
            ls >> hx;
            op->in = unhex(hx);
        } else if (kw == "fault" && op) {
            Fault &f = op->f;
            ls >> f.alloc_k >> f.alloc_mode >> f.alloc_k2 >> f.wr_fail_at >> f.wr_errno >> f.wr_chunk >> f.rd_chunk >> f.rd_err_at >> f.rd_errno >> f.bufmode;
            unsigned long long mk = 0;
            if (ls >> mk) f.alloc_mask = mk;
            int sk = 0, se = 0;
            if (ls >> sk >> se) { f.sys_k = sk; f.sys_errno = se; }
        } else if (kw == "start") ls >> s.start;
        else if (kw == "sw") {
            Switch w;
            ls >> w.task >> w.op >> w.ev >> w.target;
            s.sw.push_back(w);
        } else {
            std::string rest;
            std::getline(ls, rest);
            if (!rest.empty() && rest[0] == ' ') rest.erase(0, 1);
            meta[kw] = rest;
        }
    }
    return !p.tasks.empty();
}
