#!/usr/bin/env python3
"""regenerate the table of section 13 of DESIGN.md from /verif/seeded/*/meta.json (between the two markers)"""
import json, glob, os, re
rows = []
for d in sorted(glob.glob('/verif/seeded/*')):
    m = json.load(open(d + '/meta.json'))
    rows.append((os.path.basename(d), m['property'], ' '.join(m.get('needs', '').split())[:170].replace('|', '/'),
                 ' '.join(m.get('detection_notes', '').split())[:420].replace('|', '/')))
t = "<!-- seeded-table-begin -->\n| id (`/verif/seeded/`) | property | needs, to manifest | caught by |\n|---|---|---|---|\n"
for r in rows:
    t += "| `%s` | %s | %s | %s |\n" % r
t += "<!-- seeded-table-end -->"
s = open('/verif/DESIGN.md').read()
if '<!-- seeded-table-begin -->' in s:
    s = re.sub(r'<!-- seeded-table-begin -->.*?<!-- seeded-table-end -->', lambda m: t, s, flags=re.S)
else:
    i = s.index('| id (`/verif/seeded/`) | property |')
    j = s.index('\n\n', i)
    s = s[:i] + t + s[j:]
open('/verif/DESIGN.md', 'w').write(s)
print(len(rows), 'seeded changes')
