// C12 -- concurrent calls on disjoint data do not interfere; no hidden mutable state.
// DESIGN.md section 4. Oracles: S (state invariant, solo pass) and I (interference, schedule exploration).
#include "ops.h"
#include "props.h"
#include <errno.h>
#include <unistd.h>
#include <algorithm>
extern "C" {
#include "safe_lib.h"
#include "safe_str_lib.h"
#include "safe_mem_lib.h"
}

static void c12_before_tasks() {
    set_str_constraint_handler_s(sim_handler_log);
    set_mem_constraint_handler_s(sim_handler_log);
}
PassCfg api_cfg(PassMode mode, int who, bool track) {
    PassCfg c;
    c.mode = mode;
    c.solo_task = who;
    c.victim = who;
    c.track_static = track;
    c.rec_edges = track;
    c.exec = exec_api_op;
    c.before_tasks = c12_before_tasks;
    return c;
}

// ------------------------------------------------------------------ per-plan analysis
struct Solo {
    std::vector<std::vector<OpResult>> res; // [task][op]
    uint64_t events = 0;
};
static void run_solo(const Plan &plan, Solo &s, int only_task = -1, bool renew = false) {
    s.res.assign(plan.tasks.size(), {});
    s.events = 0;
    for (size_t t = 0; t < plan.tasks.size(); t++) {
        if (only_task >= 0 && (int)t != only_task) continue;
        Schedule empty;
        empty.start = (int)t;
        ReplayStrategy st(empty, (int)plan.tasks.size());
        PassResult pr;
        PassCfg cfg = api_cfg(PASS_SOLO, (int)t, !renew);
        cfg.renew_threads = renew;
        run_pass(plan, cfg, st, pr);
        s.res[t] = pr.res[t];
        s.events += pr.events;
    }
}

struct Mismatch {
    int task = -1, op = -1;
};
// Some call of the plan allocates inside a one-time initialiser: whoever gets there first makes those requests, so the
// request ordinals of the other calls differ between "alone" and "interleaved". A call with an allocation failure
// attached (addressed by ordinal) is then not comparable, nor are the calls after it in its task (whole-memory digests).
static bool once_alloc_plan(const Solo &solo) {
    for (auto &tr : solo.res)
        for (auto &r : tr)
            if (r.once_allocs) return true;
    return false;
}
static bool comparable(const Plan &plan, const Solo &solo, size_t t, size_t o) {
    if (!once_alloc_plan(solo)) return true;
    for (size_t i = 0; i <= o && i < plan.tasks[t].ops.size(); i++)
        if (plan.tasks[t].ops[i].f.alloc_k || plan.tasks[t].ops[i].f.alloc_mask) return false;
    return true;
}
static bool first_mismatch(const Plan &plan, const Solo &solo, const PassResult &pr, Mismatch &m, int only_fn = -1) {
    for (size_t t = 0; t < plan.tasks.size(); t++) {
        if (solo.res[t].empty()) continue;
        for (size_t o = 0; o < plan.tasks[t].ops.size(); o++) {
            if (!comparable(plan, solo, t, o)) break;
            if (only_fn >= 0 && plan.tasks[t].ops[o].fn != only_fn) continue;
            if (!pr.res[t][o].done || pr.res[t][o].digest != solo.res[t][o].digest) {
                m.task = (int)t;
                m.op = (int)o;
                return true;
            }
        }
    }
    return false;
}

static std::string objects_of(const OpResult &solo_op) {
    std::vector<std::string> names;
    for (int k : solo_op.footprint) names.push_back(g_lib.sym_key(k));
    std::sort(names.begin(), names.end());
    std::string s;
    for (auto &n : names) s += (s.empty() ? "" : "+") + n;
    return s.empty() ? "?" : s;
}
static const char *SETTINGS_KEY = "interference:process-settings";
static std::string interference_key(const Plan &plan, const Solo &solo, const Mismatch &m, const PassResult *conc = nullptr) {
    const Op &op = plan.tasks[m.task].ops[m.op];
    // the call's own outputs agree and only the process-wide settings it returns into differ (umask, locale,
    // environment, rounding mode, cwd): some call changed one of them while this one was in flight
    if (conc && conc->res[m.task][m.op].done && conc->res[m.task][m.op].digest_core == solo.res[m.task][m.op].digest_core) return SETTINGS_KEY;
    // static objects touched (in the solo passes) by any call of the victim's function in this plan
    OpResult all;
    for (size_t t = 0; t < plan.tasks.size(); t++)
        for (size_t o = 0; o < plan.tasks[t].ops.size() && o < solo.res[t].size(); o++)
            if (plan.tasks[t].ops[o].fn == op.fn)
                for (int k : solo.res[t][o].footprint)
                    if (std::find(all.footprint.begin(), all.footprint.end(), k) == all.footprint.end()) all.footprint.push_back(k);
    std::string objs = objects_of(all);
    if (objs == "?") {
        // no static object is involved; if the call works on a buffer that touches the arena boundary, the channel is
        // the neighbouring task's adjacent bytes
        for (int ai = 0; ai < 3; ai++) {
            int64_t off = op.a[ai];
            if (off == ARENA_LO || (off > ARENA_HI - 600 && off < ARENA_HI)) objs = "neighbouring-bytes";
        }
    }
    return std::string("interference:") + g_fn[op.fn].name + ":" + objs;
}

// oracle H on a one-task plan: the last call differs between the plain solo pass and the pass with thread renewal
static bool carry_over_fails(const Plan &p, const std::string &key, int *which = nullptr) {
    Solo a, b;
    run_solo(p, a);
    run_solo(p, b, -1, true);
    for (size_t t = 0; t < p.tasks.size(); t++)
        for (size_t o = 1; o < p.tasks[t].ops.size() && !p.tasks[t].ops[o].f.alloc_k && !p.tasks[t].ops[o].f.alloc_mask; o++)
            if ((!b.res[t][o].done || a.res[t][o].digest_h != b.res[t][o].digest_h) && std::string("carry-over:") + g_fn[p.tasks[t].ops[o].fn].name == key) {
                if (which) *which = (int)o;
                return true;
            }
    return false;
}

// ------------------------------------------------------------------ plan surgery for minimisation
void drop_task(Plan &p, Schedule &s, int t) {
    p.tasks.erase(p.tasks.begin() + t);
    std::vector<Switch> out;
    for (auto w : s.sw) {
        if (w.task == t || w.target == t) continue;
        if (w.task > t) w.task--;
        if (w.target > t) w.target--;
        out.push_back(w);
    }
    s.sw = out;
    if (s.start == t) s.start = 0;
    else if (s.start > t) s.start--;
}
void drop_op(Plan &p, Schedule &s, int t, int o) {
    p.tasks[t].ops.erase(p.tasks[t].ops.begin() + o);
    std::vector<Switch> out;
    for (auto w : s.sw) {
        if (w.task == t) {
            if (w.op == o) continue;
            if (w.op > o) w.op--;
        }
        out.push_back(w);
    }
    s.sw = out;
}

struct Cand {
    Plan plan;
    Schedule sched;
    std::string key;
    int fn;
};
// does (plan, sched) still show an interference with the same key? (solo vs replayed schedule)
static bool still_fails(const Plan &plan, const Schedule &sched, const std::string &key, int fn, Mismatch *mm = nullptr, uint64_t *hash = nullptr) {
    if (plan.tasks.empty()) return false;
    Solo solo;
    run_solo(plan, solo);
    ReplayStrategy st(sched, (int)plan.tasks.size());
    PassResult pr;
    run_pass(plan, api_cfg(PASS_CONC, -1, false), st, pr);
    if (hash) *hash = pr.loghash;
    // any op of that function with that key
    for (size_t t = 0; t < plan.tasks.size(); t++)
        for (size_t o = 0; o < plan.tasks[t].ops.size(); o++) {
            if (fn >= 0 && plan.tasks[t].ops[o].fn != fn) continue;
            if (pr.res[t][o].digest == solo.res[t][o].digest) continue;
            if (!comparable(plan, solo, t, o)) continue;
            Mismatch m;
            m.task = (int)t;
            m.op = (int)o;
            if (interference_key(plan, solo, m, &pr) != key) continue;
            // null-preemption control: same switches, nobody else calls the library
            PassResult pn;
            ReplayStrategy st2(sched, (int)plan.tasks.size());
            run_pass(plan, api_cfg(PASS_NULLOTHERS, (int)t, false), st2, pn);
            if (pn.res[t][o].digest != solo.res[t][o].digest) continue;
            if (mm) *mm = m;
            return true;
        }
    return false;
}

static int minimise(Cand &c, int budget) {
    int tries = 0;
    // 1. drop tasks
    for (int t = (int)c.plan.tasks.size() - 1; t >= 0 && c.plan.tasks.size() > 1; t--) {
        Plan p = c.plan;
        Schedule s = c.sched;
        drop_task(p, s, t);
        if (++tries > budget) return tries;
        if (still_fails(p, s, c.key, c.fn)) { c.plan = p; c.sched = s; }
    }
    // 2. drop ops
    bool progress = true;
    while (progress && tries < budget) {
        progress = false;
        for (int t = 0; t < (int)c.plan.tasks.size(); t++)
            for (int o = (int)c.plan.tasks[t].ops.size() - 1; o >= 0; o--) {
                Plan p = c.plan;
                Schedule s = c.sched;
                drop_op(p, s, t, o);
                if (++tries > budget) return tries;
                if (still_fails(p, s, c.key, c.fn)) { c.plan = p; c.sched = s; progress = true; }
            }
    }
    // 3. drop switches: whole chunks first (ddmin), then one by one
    for (size_t chunk = c.sched.sw.size() / 2; chunk >= 1 && tries < budget; chunk /= 2) {
        for (size_t i = 0; i + chunk <= c.sched.sw.size() && tries < budget;) {
            Schedule s = c.sched;
            s.sw.erase(s.sw.begin() + i, s.sw.begin() + i + chunk);
            tries++;
            if (still_fails(c.plan, s, c.key, c.fn)) c.sched = s;
            else i += chunk;
        }
        if (chunk == 1) break;
    }
    // 3b. tasks that lost all their ops
    for (int t = (int)c.plan.tasks.size() - 1; t >= 0 && c.plan.tasks.size() > 1; t--) {
        if (!c.plan.tasks[t].ops.empty()) continue;
        Plan p = c.plan;
        Schedule s = c.sched;
        drop_task(p, s, t);
        if (++tries > budget) return tries;
        if (still_fails(p, s, c.key, c.fn)) { c.plan = p; c.sched = s; }
    }
    // 4. drop faults and stream input
    for (auto &tp : c.plan.tasks)
        for (auto &op : tp.ops) {
            if (!op.f.any()) continue;
            Fault save = op.f;
            op.f = Fault();
            if (++tries > budget) return tries;
            if (!still_fails(c.plan, c.sched, c.key, c.fn)) op.f = save;
        }
    return tries;
}

// ------------------------------------------------------------------ replay files
std::string g_outdir = "/verif/out/replays";
std::string write_replay(const char *prop, const std::string &cls, const std::string &key, uint64_t seed, uint64_t run,
                                const Plan &plan, const Schedule &sched, const std::string &extra) {
    std::string safe;
    for (char ch : key) safe += (isalnum((unsigned char)ch) || ch == '_' || ch == '.') ? ch : '-';
    if (safe.size() > 80) safe.resize(80);
    char name[512];
    snprintf(name, sizeof name, "%s/%s-%llu-%llu-%s.replay", g_outdir.c_str(), prop, (unsigned long long)seed, (unsigned long long)run, safe.c_str());
    std::string txt = "# verif replay file (text; see /verif/DESIGN.md section 10)\n";
    txt += std::string("property ") + prop + "\n";
    txt += "class " + cls + "\n";
    txt += "key " + key + "\n";
    txt += "seed " + std::to_string(seed) + "\n";
    txt += "run " + std::to_string(run) + "\n";
    txt += std::string("variant ") + g_variant + "\n";
    txt += extra;
    txt += plan_to_text(plan);
    txt += sched_to_text(sched);
    FILE *f = fopen(name, "w");
    if (!f) { perror(name); return ""; }
    fwrite(txt.data(), 1, txt.size(), f);
    fclose(f);
    return name;
}

// ------------------------------------------------------------------ crash hook
static const Plan *g_cur_plan = nullptr;
static uint64_t g_cur_seed = 0, g_cur_run = 0;
static const char *g_cur_phase = "";
static void c12_crash_hook(int sig) {
    if (!g_cur_plan) return;
    Schedule s;
    s.start = g_sim.recorded.empty() ? 0 : g_sim.recorded[0].task;
    s.sw = g_sim.recorded;
    std::string extra = std::string("phase ") + g_cur_phase + "\nsignal " + std::to_string(sig) + "\n";
    if (g_sim.cfg.mode == PASS_SOLO) extra += "solo_task " + std::to_string(g_sim.cfg.solo_task) + "\n";
    std::string path = write_replay("C12", "crash", std::string("crash:") + g_cur_phase, g_cur_seed, g_cur_run, *g_cur_plan, s, extra);
    printf("CRASH {\"run\":%llu,\"phase\":\"%s\",\"signal\":%d,\"replay\":%s}\n", (unsigned long long)g_cur_run, g_cur_phase, sig, jstr(path).c_str());
    fflush(stdout);
}

// ------------------------------------------------------------------ targeted schedules
static bool build_targeted(Rng &r, const Plan &plan, const Solo &solo, Schedule &s) {
    struct V { int t, o; uint32_t nev; int w; const OpResult *sr; };
    std::vector<V> cands;
    for (size_t t = 0; t < plan.tasks.size(); t++)
        for (size_t o = 0; o < plan.tasks[t].ops.size(); o++) {
            const OpResult &sr = solo.res[t][o];
            if (!sr.nev) continue;
            int w = 1;
            if (!sr.footprint.empty() || sr.libc_static) w += 6;
            for (int ai = 0; ai < 3; ai++)
                if (plan.tasks[t].ops[o].a[ai] == ARENA_LO || (plan.tasks[t].ops[o].a[ai] > ARENA_HI - 600 && plan.tasks[t].ops[o].a[ai] < ARENA_HI)) w += 4;
            // another task runs the same function / family: a shared object would be shared with it
            for (size_t t2 = 0; t2 < plan.tasks.size(); t2++)
                if (t2 != t)
                    for (auto &op2 : plan.tasks[t2].ops) {
                        if (op2.fn == plan.tasks[t].ops[o].fn) { w += 3; break; }
                        if (g_fn[op2.fn].fam == g_fn[plan.tasks[t].ops[o].fn].fam) { w += 1; break; }
                    }
            if (sr.n_edge) w += 12; // the call touches a word it shares with a neighbouring task's memory
            cands.push_back({(int)t, (int)o, sr.nev, w, &sr});
        }
    if (cands.empty() || plan.tasks.size() < 2) return false;
    int total = 0;
    for (auto &c : cands) total += c.w;
    int pickw = r.below(total);
    V v = cands[0];
    for (auto &c : cands) { if (pickw < c.w) { v = c; break; } pickw -= c.w; }
    int fn = plan.tasks[v.t].ops[v.o].fn;
    // interloper: prefer a task that runs the same function
    std::vector<std::pair<int, int>> inter; // (task, op)
    for (size_t t2 = 0; t2 < plan.tasks.size(); t2++)
        if ((int)t2 != v.t)
            for (size_t o2 = 0; o2 < plan.tasks[t2].ops.size(); o2++)
                if (plan.tasks[t2].ops[o2].fn == fn || g_fn[plan.tasks[t2].ops[o2].fn].fam == g_fn[fn].fam) inter.push_back({(int)t2, (int)o2});
    int w, j;
    if (!inter.empty() && r.chance(4, 5)) { auto p = inter[r.below((uint32_t)inter.size())]; w = p.first; j = p.second; }
    else {
        w = r.below((uint32_t)plan.tasks.size() - 1);
        if (w >= v.t) w++;
        if (plan.tasks[w].ops.empty()) return false;
        j = r.below((uint32_t)plan.tasks[w].ops.size());
    }
    s = Schedule();
    s.start = v.t;
    int npts = 1 + (r.chance(1, 3) ? r.below(3) : 0);
    std::vector<uint32_t> evs;
    for (int i = 0; i < npts; i++) evs.push_back(1 + r.below(v.nev));
    // conflict-directed: preempt exactly where the call touches memory next to (or inside) another task's - before the
    // load or store executes - or within a few events after it
    if (v.sr->n_edge && r.chance(5, 6)) {
        evs.clear();
        uint32_t e = v.sr->edge_ev[r.below(v.sr->n_edge)];
        if (r.chance(1, 3)) e += 1 + r.below(6);
        if (e > v.nev) e = v.nev;
        evs.push_back(e ? e : 1);
    }
    std::sort(evs.begin(), evs.end());
    evs.erase(std::unique(evs.begin(), evs.end()), evs.end());
    int wnops = (int)plan.tasks[w].ops.size();
    int back = j + 1; // w gives the processor back when it reaches the boundary before op `back`
    for (size_t i = 0; i < evs.size(); i++) {
        s.sw.push_back({v.t, v.o, evs[i], w});
        if (back > wnops) break;
        s.sw.push_back({w, back, 0, v.t});
        back++;
    }
    return true;
}

// ------------------------------------------------------------------ batch
struct C12Stats {
    uint64_t adjacent_plans = 0;
    uint64_t plans = 0, sched_exec = 0, events = 0, switches = 0, inner_switches = 0, ops = 0;
    uint64_t strat[4] = {0, 0, 0, 0};
    uint64_t fam_ops[FAM_NFAM] = {0};
    uint64_t fn_ops[FN_COUNT] = {0};
    uint64_t fn_preempted[FN_COUNT] = {0};
    uint64_t fn_same_conflict[FN_COUNT] = {0};
    uint64_t faults_alloc = 0, faults_wr = 0, faults_rd = 0, faults_sys = 0;
    uint64_t unstable = 0, nondeterministic = 0, footprint_ops = 0, mismatches = 0, carry_ops = 0, enumerated_conflict_schedules = 0;
    uint64_t det_checked = 0;
    std::set<uint64_t> fingerprints; // nontrivial schedule executions
    std::set<uint64_t> triples;
    std::map<std::string, uint64_t> viol_count;
    std::map<std::string, std::string> viol_replay;
    bool viol_emitted = false;
};

static void emit_violation(C12Stats &st, const std::string &cls, const std::string &key, const std::string &replay, uint64_t run, const std::string &detail) {
    printf("VIOL {\"property\":\"C12\",\"class\":%s,\"key\":%s,\"replay\":%s,\"run\":%llu,\"detail\":%s}\n", jstr(cls).c_str(),
           jstr(key).c_str(), jstr(replay).c_str(), (unsigned long long)run, jstr(detail).c_str());
    fflush(stdout);
}

static uint64_t plan_hash(const Plan &p) { return hash_bytes(plan_to_text(p).data(), plan_to_text(p).size()); }

static std::string plan_json(const Plan &p, const Schedule *s) {
    std::string o = "{\"locale\":" + std::to_string(p.locale) + ",\"tasks\":[";
    for (size_t t = 0; t < p.tasks.size(); t++) {
        o += t ? ",[" : "[";
        for (size_t i = 0; i < p.tasks[t].ops.size(); i++) o += (i ? "," : "") + op_to_json(p.tasks[t].ops[i]);
        o += "]";
    }
    o += "]";
    if (s) {
        o += ",\"schedule\":{\"start\":" + std::to_string(s->start) + ",\"switches\":[";
        for (size_t i = 0; i < s->sw.size() && i < 24; i++) {
            char tmp[96];
            snprintf(tmp, sizeof tmp, "%s[%d,%d,%u,%d]", i ? "," : "", s->sw[i].task, s->sw[i].op, s->sw[i].ev, s->sw[i].target);
            o += tmp;
        }
        o += "]}";
    }
    return o + "}";
}

static void flush_stats(C12Stats &st, const Args &a) {
    std::string s = "{";
    auto add = [&](const char *k, uint64_t v) { s += (s.size() > 1 ? "," : "") + std::string("\"") + k + "\":" + std::to_string(v); };
    add("adjacent_plans", st.adjacent_plans); add("plans", st.plans); add("sched_exec", st.sched_exec); add("events", st.events); add("switches", st.switches);
    add("inner_switches", st.inner_switches); add("ops", st.ops); add("unstable", st.unstable); add("nondeterministic", st.nondeterministic);
    add("det_checked", st.det_checked); add("footprint_ops", st.footprint_ops); add("carry_ops", st.carry_ops); add("enumerated_conflict_schedules", st.enumerated_conflict_schedules); add("mismatches", st.mismatches);
    add("faults_alloc", st.faults_alloc); add("faults_wr", st.faults_wr); add("faults_rd", st.faults_rd); add("faults_sys", st.faults_sys);
    add("strat_sequential", st.strat[0]); add("strat_uniform", st.strat[1]); add("strat_pct", st.strat[2]); add("strat_targeted", st.strat[3]);
    s += ",\"fam_ops\":{";
    for (int f = 0; f < FAM_NFAM; f++) s += (f ? "," : "") + jstr(g_fam_name[f]) + ":" + std::to_string(st.fam_ops[f]);
    s += "},\"fn\":{";
    for (int f = 0; f < FN_COUNT; f++)
        s += (f ? "," : "") + jstr(g_fn[f].name) + ":[" + std::to_string(st.fn_ops[f]) + "," + std::to_string(st.fn_preempted[f]) + "," + std::to_string(st.fn_same_conflict[f]) + "]";
    s += "},\"viol\":{";
    bool first = true;
    if (!st.viol_emitted)
        for (auto &kv : st.viol_count) { s += (first ? "" : ",") + jstr(kv.first) + ":" + std::to_string(kv.second); first = false; }
    s += "},\"coverage\":{";
    first = true;
    std::string tot;
    for (auto &kv : coverage_by_function()) {
        s += (first ? "" : ",") + jstr(kv.first) + ":" + std::to_string(kv.second.first);
        tot += (first ? "" : ",") + jstr(kv.first) + ":" + std::to_string(kv.second.second);
        first = false;
    }
    s += "},\"coverage_total\":{" + tot;
    s += "},\"nguards\":" + std::to_string(g_nguards);
    s += "}";
    printf("STAT %s\n", s.c_str());
    // fingerprints and triples for the cross-worker union
    if (!a.fpfile.empty()) {
        FILE *f = fopen(a.fpfile.c_str(), "ab");
        if (f) {
            uint64_t tag1 = 1, tag2 = 2;
            for (uint64_t h : st.fingerprints) { fwrite(&tag1, 8, 1, f); fwrite(&h, 8, 1, f); }
            for (uint64_t h : st.triples) { fwrite(&tag2, 8, 1, f); fwrite(&h, 8, 1, f); }
            fclose(f);
        }
    }
    // deltas: the driver sums them, so a worker that dies later loses nothing already reported
    std::map<std::string, uint64_t> keep = st.viol_count;
    std::map<std::string, std::string> keepr = st.viol_replay;
    st = C12Stats();
    st.viol_count = keep; // per-key caps persist for the life of the worker
    st.viol_replay = keepr;
    st.viol_emitted = true;
}

int c12_batch(const Args &a) {
    C12Stats st;
    g_crash_hook = c12_crash_hook;
    g_outdir = a.outdir;
    int per_key_cap = 2;
    int samples_left = a.worker == 0 && a.from == 0 ? 3 : 0;
    int since_flush = 0;
    for (uint64_t i = a.from; i < a.to; i += a.stride) {
        uint64_t rs = mix64(a.seed, i);
        Rng cr(mix64(rs, 1)), pr_(mix64(rs, 2)), sr(mix64(rs, 3));
        GenCfg g;
        g.ntasks = 2 + cr.below(3);
        g.max_ops = 1 + cr.below(6);
        // now and then many threads with few calls each: objects handed out to N concurrent users need N+1 overlapping calls
        if (cr.chance(1, 12)) { g.ntasks = 5 + cr.below(3); g.max_ops = 1 + cr.below(2); }
        int nf = 1 + cr.below(4);
        for (int k = 0; k < nf; k++) g.fams.push_back(cr.below(FAM_NFAM));
        if (getenv("VERIF_ONLY_FAM")) { g.fams.clear(); g.fams.push_back(atoi(getenv("VERIF_ONLY_FAM")) % FAM_NFAM); } // diagnostics
        g.faults = cr.chance(1, 2) && !getenv("VERIF_NOFAULTS");
        g.violations = cr.chance(3, 4);
        if (cr.chance(1, 5) || getenv("VERIF_ADJACENT_ONLY")) {
            // adjacent-data plan: few short calls of the writing families on buffers that share a word across tasks
            g.adjacent = true;
            g.ntasks = 2;
            g.max_ops = 1 + cr.below(2);
            g.faults = false;
            g.fams.clear();
            static const int wf[] = {FAM_INPLACE, FAM_COPY, FAM_NCOPY, FAM_FILL};
            int nfa = 1 + cr.below(2);
            for (int k = 0; k < nfa; k++) g.fams.push_back(wf[cr.below(4)]);
            st.adjacent_plans++;
        }
        Plan plan;
        gen_plan(pr_, g, plan);
        g_cur_plan = &plan;
        g_cur_seed = a.seed;
        g_cur_run = i;
        g_cur_phase = "solo";
        printf("BEGIN %llu solo\n", (unsigned long long)i);
        fflush(stdout);
        Solo solo;
        run_solo(plan, solo);
        st.plans++;
        Hasher runhash;
        for (auto &tr : solo.res)
            for (auto &r : tr) runhash.u64(r.digest);
        uint64_t ph = plan_hash(plan);
        // ---- oracle S
        for (size_t t = 0; t < plan.tasks.size(); t++)
            for (size_t o = 0; o < plan.tasks[t].ops.size(); o++) {
                const Op &op = plan.tasks[t].ops[o];
                const OpResult &r = solo.res[t][o];
                st.ops++;
                st.fam_ops[g_fn[op.fn].fam]++;
                st.fn_ops[op.fn]++;
                st.faults_alloc += r.nfailed;
                st.faults_wr += r.wr_faults;
                st.faults_rd += r.rd_faults; st.faults_sys += r.sys_faults;
                for (int lb = 0; g_libc_static_names[lb]; lb++) {
                    if (!(r.libc_static & (1ull << lb))) continue;
                    std::string key = std::string("libc-static:") + g_fn[op.fn].name + ":" + g_libc_static_names[lb];
                    uint64_t &cnt = st.viol_count[key];
                    if (cnt++ >= (uint64_t)per_key_cap) continue;
                    Plan p1;
                    p1.locale = plan.locale;
                    p1.tasks.push_back(plan.tasks[t]);
                    p1.tasks[0].ops.resize(o + 1);
                    p1.tasks[0].ops.erase(p1.tasks[0].ops.begin(), p1.tasks[0].ops.begin() + o);
                    Schedule none;
                    std::string path = write_replay("C12", "libc-static", key, a.seed, i, p1, none, std::string("function ") + g_fn[op.fn].name + "\n");
                    st.viol_replay[key] = path;
                    emit_violation(st, "libc-static", key, path, i,
                                   std::string(g_fn[op.fn].name) + ((lb >= 7 && lb <= 16) ? " changes the process-wide setting behind " : " goes through libc's ") + g_libc_static_names[lb] +
                                       ((lb >= 7 && lb <= 16) ? " (visible to every thread for as long as the change lasts, even if it is put back)"
                                                : ", whose result / continuation state lives in static storage shared by all threads"));
                }
                if (r.footprint.empty()) continue;
                st.footprint_ops++;
                for (int k : r.footprint) {
                    std::string key = "footprint:" + g_lib.sym_key(k);
                    uint64_t &cnt = st.viol_count[key];
                    if (cnt++ >= (uint64_t)per_key_cap) continue;
                    // minimal reproducer: this task's ops up to and including the offending one; then try it alone
                    Plan p1;
                    p1.locale = plan.locale;
                    p1.tasks.push_back(plan.tasks[t]);
                    p1.tasks[0].ops.resize(o + 1);
                    Plan p2 = p1;
                    p2.tasks[0].ops.erase(p2.tasks[0].ops.begin(), p2.tasks[0].ops.begin() + o);
                    Solo s2;
                    run_solo(p2, s2);
                    bool alone = false;
                    for (int k2 : s2.res[0][0].footprint) alone |= g_lib.sym_key(k2) == g_lib.sym_key(k);
                    const Plan &pm = alone ? p2 : p1;
                    Schedule none;
                    std::string path = write_replay("C12", "footprint", key, a.seed, i, pm, none, std::string("function ") + g_fn[op.fn].name + "\n");
                    st.viol_replay[key] = path;
                    emit_violation(st, "footprint", key, path, i, std::string(g_fn[op.fn].name) + " changes the library's static object " + g_lib.sym_key(k));
                }
            }
        // ---- oracle H: no state carried from call to call inside a thread. Each task is run alone once more, with
        // the library's per-thread state (its thread-local block, values under keys it created) put back to that of
        // a newly created thread before every call; every call must produce what it produced in the plain solo pass.
        // (Static storage needs no such pass: S demands it bit-identical around every call.)
        {
            bool multi = false;
            for (auto &tp : plan.tasks) multi |= tp.ops.size() > 1;
            if (multi) {
                g_cur_phase = "renew";
                Solo fresh;
                run_solo(plan, fresh, -1, true);
                for (size_t t = 0; t < plan.tasks.size(); t++)
                    for (size_t o = 1; o < plan.tasks[t].ops.size(); o++) {
                        // a call with an allocation failure attached is not compared: the failure is addressed by request
                        // ordinal, and a thread that allocates a per-thread context lazily makes one request more in its
                        // first call than later ones, so renewal shifts the failure to another request
                        // (nor are the calls after it: their digests cover the task's whole memory, which that call shapes)
                        if (plan.tasks[t].ops[o].f.alloc_k || plan.tasks[t].ops[o].f.alloc_mask) break;
                        st.carry_ops++;
                        if (fresh.res[t][o].done && fresh.res[t][o].digest_h == solo.res[t][o].digest_h) continue;
                        const Op &op = plan.tasks[t].ops[o];
                        std::string key = std::string("carry-over:") + g_fn[op.fn].name;
                        uint64_t &cnt = st.viol_count[key];
                        if (cnt++ >= (uint64_t)per_key_cap) break;
                        // minimal witness: this task alone, calls up to the victim; then drop earlier calls greedily
                        Plan p1;
                        p1.locale = plan.locale;
                        p1.tasks.push_back(plan.tasks[t]);
                        p1.tasks[0].ops.resize(o + 1);
                        if (!carry_over_fails(p1, key)) { cnt--; st.unstable++; printf("UNSTABLE {\"run\":%llu,\"key\":%s}\n", (unsigned long long)i, jstr(key).c_str()); break; }
                        for (size_t d = 0; p1.tasks[0].ops.size() > 2 && d + 1 < p1.tasks[0].ops.size();) {
                            Plan p2 = p1;
                            p2.tasks[0].ops.erase(p2.tasks[0].ops.begin() + d);
                            if (carry_over_fails(p2, key)) p1 = p2; else d++;
                        }
                        Schedule none;
                        std::string path = write_replay("C12", "carry-over", key, a.seed, i, p1, none, std::string("function ") + g_fn[op.fn].name + "\n");
                        st.viol_replay[key] = path;
                        emit_violation(st, "carry-over", key, path, i,
                                       std::string(g_fn[op.fn].name) + " gives a different result after earlier calls of the same thread than in a thread that has made none (" +
                                           std::to_string(p1.tasks[0].ops.size()) + " calls after minimisation): the library keeps per-thread state between calls");
                        break;
                    }
            }
        }
        // ---- oracle I
        g_cur_phase = "conc";
        printf("BEGIN %llu conc\n", (unsigned long long)i);
        fflush(stdout);
        // adjacent-data plans: besides the seeded schedules, every conflict point is tried once - each event at which a
        // call touches a word shared with a neighbouring task's memory, with every other task run to its end at exactly
        // that point (bounded: 64 per plan; these plans have two tasks and one or two short calls each)
        std::vector<Schedule> enumerated;
        bool file_plan = false; // calls that open files: descriptor numbers and path names are process-wide
        for (auto &tp : plan.tasks)
            for (auto &op : tp.ops) file_plan |= op.fn >= 0 && op.fn < FN_COUNT && g_fn[op.fn].fam == FAM_FILE;
        {
            // (every plan: a call's conflict points include the places where it releases or moves a heap block - what
            // becomes of the old block is up to whoever allocates next; 24 at most for ordinary plans)
            size_t cap1 = (g.adjacent || file_plan) ? 48 : 24;
            for (size_t t = 0; t < plan.tasks.size(); t++)
                for (size_t o = 0; o < plan.tasks[t].ops.size(); o++)
                    for (int e = 0; e < solo.res[t][o].n_edge; e++)
                        for (size_t w = 0; w < plan.tasks.size(); w++)
                            if (w != t && enumerated.size() < cap1) {
                                Schedule es;
                                es.start = (int)t;
                                es.sw.push_back({(int)t, (int)o, solo.res[t][o].edge_ev[e], (int)w});
                                enumerated.push_back(es);
                            }
        }
        bool shared_heap_plan = false; // some call touches a library heap block that outlives calls
        for (auto &tr : solo.res)
            for (auto &rr : tr) shared_heap_plan |= rr.n_shared_heap > 0;
        if (g.adjacent || file_plan || shared_heap_plan) {
            // pairs: A stopped at one of its conflict points, B run up to one of its own, A run to its end, then B
            // (neither call completes inside the other: what a call does to a descriptor or a shared word it no
            // longer owns hits the other call while that one is still holding it)
            size_t pairs = 0;
            for (size_t t = 0; t < plan.tasks.size(); t++)
                for (size_t o = 0; o < plan.tasks[t].ops.size(); o++)
                    for (int e = 0; e < solo.res[t][o].n_edge; e++)
                        for (size_t w = 0; w < plan.tasks.size(); w++)
                            if (w != t)
                                for (size_t o2 = 0; o2 < plan.tasks[w].ops.size(); o2++)
                                    for (int e2 = 0; e2 < solo.res[w][o2].n_edge; e2++)
                                        if (pairs < 48) {
                                            Schedule es;
                                            es.start = (int)t;
                                            es.sw.push_back({(int)t, (int)o, solo.res[t][o].edge_ev[e], (int)w});
                                            es.sw.push_back({(int)w, (int)o2, solo.res[w][o2].edge_ev[e2], (int)t});
                                            enumerated.push_back(es);
                                            pairs++;
                                        }
        }
        if (shared_heap_plan && plan.tasks.size() >= 3) {
            // three calls nested: A stopped at one of its conflict points, B run up to one of its own, C up to one of its
            // own, then B to its end, A to its end, C to its end (what a lock-free structure without a version tag needs
            // to go wrong); sampled, 192 at most
            struct CP { int t, o; uint32_t e; };
            std::vector<CP> cps;
            for (size_t t = 0; t < plan.tasks.size(); t++)
                for (size_t o = 0; o < plan.tasks[t].ops.size(); o++)
                    if (solo.res[t][o].n_shared_heap)
                        for (int e = 0; e < solo.res[t][o].n_edge; e++) cps.push_back({(int)t, (int)o, solo.res[t][o].edge_ev[e]});
            Rng tr3(mix64(rs, 77));
            for (int n = 0; n < 192 && cps.size() >= 3; n++) {
                CP a = cps[tr3.below((uint32_t)cps.size())], b = cps[tr3.below((uint32_t)cps.size())], c = cps[tr3.below((uint32_t)cps.size())];
                if (a.t == b.t || a.t == c.t || b.t == c.t) continue;
                // a conflict point is the event BEFORE the access executes; the window of a read-then-compare-and-swap
                // opens after the read: stop the first call one or two events later half of the time
                if (tr3.chance(1, 2)) a.e += 1 + tr3.below(2);
                Schedule es;
                es.start = a.t;
                es.sw.push_back({a.t, a.o, a.e, b.t});
                es.sw.push_back({b.t, b.o, b.e, c.t});
                es.sw.push_back({c.t, c.o, c.e, b.t});
                // when b ends the forced switch goes to the lowest runnable task: make that a, then c
                enumerated.push_back(es);
            }
        }
        st.enumerated_conflict_schedules += enumerated.size();
        for (int k = 0; k < a.schedules + (int)enumerated.size(); k++) {
            Rng kr(mix64(mix64(rs, 4), k));
            int kind = k >= a.schedules ? 99 : (int)kr.below(20);
            if ((g.adjacent || file_plan) && kind != 99 && kr.chance(2, 3)) kind = 15; // adjacent-data plans: mostly conflict-directed schedules
            Schedule targeted;
            Strategy *strat = nullptr;
            int sk;
            if (kind == 99) { sk = 3; strat = new ReplayStrategy(enumerated[k - a.schedules], (int)plan.tasks.size()); }
            else if (kind < 5) { sk = 0; strat = new RandomStrategy(kr.next(), 0, (int)plan.tasks.size(), solo.events, 0, 0); }
            else if (kind < 11) { static const uint32_t ps[] = {8, 32, 128, 512, 2048}; sk = 1; strat = new RandomStrategy(kr.next(), 1, (int)plan.tasks.size(), solo.events, ps[kr.below(5)], 0); }
            else if (kind < 15) { sk = 2; strat = new RandomStrategy(kr.next(), 2, (int)plan.tasks.size(), solo.events, 0, 2 + kr.below(3)); }
            else if (build_targeted(kr, plan, solo, targeted)) { sk = 3; strat = new ReplayStrategy(targeted, (int)plan.tasks.size()); }
            else { sk = 1; strat = new RandomStrategy(kr.next(), 1, (int)plan.tasks.size(), solo.events, 64, 0); }
            st.strat[sk]++;
            PassResult pr;
            run_pass(plan, api_cfg(PASS_CONC, -1, false), *strat, pr);
            delete strat;
            st.sched_exec++;
            runhash.u64(pr.loghash);
            st.events += pr.events;
            st.switches += pr.recorded.size();
            // fingerprint and conflict measures
            Hasher fp;
            fp.u64(ph);
            bool inner = false;
            for (auto &w : pr.recorded) {
                fp.u64(((uint64_t)w.task << 48) | ((uint64_t)w.op << 32) | (w.ev > 0 ? 1 + w.ev / 16 : 0));
                fp.u64((uint64_t)w.target);
                if (w.ev > 0 && w.ev != 0xffffffffu && w.op < (int)plan.tasks[w.task].ops.size()) {
                    inner = true;
                    st.inner_switches++;
                    int vfn = plan.tasks[w.task].ops[w.op].fn;
                    st.fn_preempted[vfn]++;
                    const TaskPlan &tt = plan.tasks[w.target];
                    for (auto &op2 : tt.ops) {
                        st.triples.insert(((uint64_t)vfn << 16) | (uint64_t)op2.fn);
                        if (op2.fn == vfn) st.fn_same_conflict[vfn]++;
                    }
                }
            }
            if (inner) st.fingerprints.insert(fp.h);
            // determinism gate, sampled: the recorded schedule replays to the same event log
            bool check_det = (i % 16 == 0 && k == 0);
            Mismatch m;
            bool mis = first_mismatch(plan, solo, pr, m);
            if (check_det || mis) {
                Schedule rec;
                rec.start = pr.start;
                rec.sw = pr.recorded;
                ReplayStrategy rp(rec, (int)plan.tasks.size());
                PassResult pr2;
                run_pass(plan, api_cfg(PASS_CONC, -1, false), rp, pr2);
                st.det_checked++;
                if (pr2.loghash != pr.loghash) {
                    st.nondeterministic++;
                    std::string np = write_replay("C12", "nondet", "nondet", a.seed, i, plan, rec, "");
                    for (size_t t = 0; t < pr.res.size(); t++)
                        for (size_t o = 0; o < pr.res[t].size(); o++) {
                            const OpResult &x = pr.res[t][o], &y = pr2.res[t][o];
                            if (x.digest == y.digest && x.nev == y.nev) continue;
                            const Op &op = plan.tasks[t].ops[o];
                            std::string fm;
                            if (g_fn[op.fn].fam == FAM_FMT || g_fn[op.fn].fam == FAM_SFMT)
                                for (auto &bl : op.blobs)
                                    if ((int64_t)bl.off == op.a[3]) fm = bl.bytes;
                            printf("NONDET-OP {\"fn\":%s,\"ret\":[%lld,%lld],\"nev\":[%u,%u],\"arena_same\":%d,\"out_same\":%d,\"fmt\":%s,\"a\":[%lld,%lld,%lld,%lld,%lld]}\n",
                                   jstr(g_fn[op.fn].name).c_str(), (long long)x.ret, (long long)y.ret, x.nev, y.nev, x.arena_hash == y.arena_hash, x.out == y.out,
                                   jstr(fm).c_str(), (long long)op.a[4], (long long)op.a[5], (long long)op.a[6], (long long)op.a[7], (long long)op.a[8]);
                        }
                    printf("NONDET {\"run\":%llu,\"sched\":%d,\"replay\":%s}\n", (unsigned long long)i, k, jstr(np).c_str());
                    fflush(stdout);
                    continue;
                }
            }
            if (!mis) continue;
            st.mismatches++;
            std::string key = interference_key(plan, solo, m, &pr);
            int fn = key == SETTINGS_KEY ? -1 : plan.tasks[m.task].ops[m.op].fn;
            uint64_t &cnt = st.viol_count[key];
            if (cnt++ >= (uint64_t)per_key_cap) continue;
            Cand c;
            c.plan = plan;
            c.sched.start = pr.start;
            c.sched.sw = pr.recorded;
            c.key = key;
            c.fn = fn;
            Mismatch mm;
            if (!still_fails(c.plan, c.sched, key, fn, &mm)) {
                // the mismatch did not survive the replay + null-preemption control
                st.unstable++;
                cnt--;
                printf("UNSTABLE {\"run\":%llu,\"sched\":%d,\"key\":%s}\n", (unsigned long long)i, k, jstr(key).c_str());
                fflush(stdout);
                continue;
            }
            int tries = minimise(c, a.min_budget);
            uint64_t h1 = 0, h2 = 0;
            bool ok1 = still_fails(c.plan, c.sched, key, fn, &mm, &h1);
            bool ok2 = still_fails(c.plan, c.sched, key, fn, &mm, &h2);
            if (!ok1 || !ok2 || h1 != h2) {
                st.unstable++;
                cnt--;
                continue;
            }
            std::string extra = "function " + std::string(fn >= 0 ? g_fn[fn].name : "*") + "\nvictim " + std::to_string(mm.task) + " " + std::to_string(mm.op) +
                                "\nminimise_tries " + std::to_string(tries) + "\n";
            std::string path = write_replay("C12", "interference", key, a.seed, i, c.plan, c.sched, extra);
            st.viol_replay[key] = path;
            size_t nops = 0;
            for (auto &tp : c.plan.tasks) nops += tp.ops.size();
            char detail[384];
            std::string others;
            for (size_t t2 = 0; t2 < c.plan.tasks.size(); t2++)
                if ((int)t2 != mm.task)
                    for (auto &op2 : c.plan.tasks[t2].ops)
                        if (op2.fn >= 0 && op2.fn < FN_COUNT && others.find(g_fn[op2.fn].name) == std::string::npos) others += (others.empty() ? "" : ", ") + std::string(g_fn[op2.fn].name);
            if (fn >= 0)
                snprintf(detail, sizeof detail, "%s gives a different result when other threads' calls (%s) run inside or next to it than when run alone (%zu tasks, %zu ops, %zu switches after minimisation)",
                         g_fn[fn].name, others.c_str(), c.plan.tasks.size(), nops, c.sched.sw.size());
            else
                snprintf(detail, sizeof detail, "a call returns with different process-wide settings (umask / locale / environment / rounding mode / cwd) than when run alone: another thread's library call changed them in between (%zu tasks, %zu ops, %zu switches after minimisation)",
                         c.plan.tasks.size(), nops, c.sched.sw.size());
            emit_violation(st, "interference", key, path, i, detail);
            g_cur_plan = &plan;
        }
        printf("RUNHASH %llu %016llx\n", (unsigned long long)i, (unsigned long long)runhash.h);
        if (++since_flush >= 64) { since_flush = 0; flush_stats(st, a); }
        if (samples_left > 0) {
            samples_left--;
            printf("SAMPLE %s\n", plan_json(plan, nullptr).c_str());
        }
    }
    g_cur_plan = nullptr;
    flush_stats(st, a);
    if (getenv("VERIF_DUMP_UNHIT")) dump_unhit_pcs(getenv("VERIF_DUMP_UNHIT"));
    fflush(stdout);
    return 0;
}

// ------------------------------------------------------------------ debugging aid: is a replay stable?
static int c12_stress(const Plan &plan, const Schedule &sched) {
    std::vector<std::vector<OpResult>> first;
    std::vector<std::string> snap0;
    uint64_t firsthash = 0;
    for (int it = 0; it < 12; it++) {
        Solo s;
        run_solo(plan, s);
        ReplayStrategy st(sched, (int)plan.tasks.size());
        PassResult pr;
        run_pass(plan, api_cfg(PASS_CONC, -1, false), st, pr);
        if (it % 3 == 1) {
            for (size_t v = 0; v < plan.tasks.size(); v++) {
                PassResult pn;
                ReplayStrategy st2(sched, (int)plan.tasks.size());
                run_pass(plan, api_cfg(PASS_NULLOTHERS, (int)v, false), st2, pn);
            }
        }
        if (it == 0) {
            first = pr.res;
            firsthash = pr.loghash;
            for (Task *t : g_sim.tasks) snap0.push_back(std::string((const char *)t->arena.base, ARENA_SIZE));
            continue;
        }
        for (size_t t = 0; t < g_sim.tasks.size(); t++) {
            const uint8_t *b = g_sim.tasks[t]->arena.base;
            for (size_t k = 0; k < ARENA_SIZE; k++)
                if ((uint8_t)snap0[t][k] != b[k]) {
                    printf("iteration %d: task %zu final arena differs first at offset %zu: was %s now %s\n", it, t, k,
                           hexs(snap0[t].substr(k, 24)).c_str(), hexs(std::string((const char *)b + k, 24)).c_str());
                    break;
                }
        }
        if (pr.loghash != firsthash) printf("iteration %d: event log differs (%zu vs recorded switches)\n", it, pr.recorded.size());
        for (size_t t = 0; t < pr.res.size(); t++)
            for (size_t o = 0; o < pr.res[t].size(); o++) {
                const OpResult &x = first[t][o], &y = pr.res[t][o];
                if (x.digest == y.digest && x.nev == y.nev) continue;
                printf("iteration %d: task %zu op %zu (%s): ret %lld/%lld err %d/%d nev %u/%u arena %s out %s hcalls %zu/%zu\n", it, t, o,
                       g_fn[plan.tasks[t].ops[o].fn].name, (long long)x.ret, (long long)y.ret, x.err, y.err, x.nev, y.nev,
                       x.arena_hash == y.arena_hash ? "same" : "DIFF", x.out == y.out ? "same" : "DIFF", x.hcalls.size(), y.hcalls.size());
            }
    }
    return 0;
}

// ------------------------------------------------------------------ replay
int c12_replay(const std::string &path) {
    FILE *f = fopen(path.c_str(), "r");
    if (!f) { perror(path.c_str()); return 2; }
    std::string txt;
    char buf[65536];
    size_t n;
    while ((n = fread(buf, 1, sizeof buf, f)) > 0) txt.append(buf, n);
    fclose(f);
    std::map<std::string, std::string> meta;
    Plan plan;
    Schedule sched;
    if (!parse_replay(txt, meta, plan, sched)) { fprintf(stderr, "cannot parse %s\n", path.c_str()); return 2; }
    std::string cls = meta["class"], key = meta["key"];
    if (getenv("VERIF_STRESS")) return c12_stress(plan, sched);
    if (cls == "footprint") {
        Solo s;
        run_solo(plan, s);
        for (auto &tr : s.res)
            for (auto &r : tr)
                for (int k : r.footprint)
                    if ("footprint:" + g_lib.sym_key(k) == key) {
                        printf("REPRODUCED property=C12 class=footprint key=%s\n", key.c_str());
                        return 1;
                    }
        printf("NOT-REPRODUCED property=C12 key=%s\n", key.c_str());
        return 0;
    }
    if (cls == "libc-static") {
        Solo s;
        run_solo(plan, s);
        for (size_t t = 0; t < s.res.size(); t++)
            for (size_t o = 0; o < s.res[t].size(); o++)
                for (int lb = 0; g_libc_static_names[lb]; lb++)
                    if ((s.res[t][o].libc_static & (1ull << lb)) &&
                        std::string("libc-static:") + g_fn[plan.tasks[t].ops[o].fn].name + ":" + g_libc_static_names[lb] == key) {
                        printf("REPRODUCED property=C12 class=libc-static key=%s\n", key.c_str());
                        return 1;
                    }
        printf("NOT-REPRODUCED property=C12 key=%s\n", key.c_str());
        return 0;
    }
    if (cls == "carry-over") {
        int which = -1;
        bool a1 = carry_over_fails(plan, key, &which), a2 = carry_over_fails(plan, key, &which);
        if (a1 && a2) {
            Solo a, b;
            run_solo(plan, a);
            run_solo(plan, b, -1, true);
            printf("REPRODUCED property=C12 class=carry-over key=%s victim=task0/op%d\n", key.c_str(), which);
            printf("  after the earlier calls: ret=%lld errno=%d digest=%016llx\n", (long long)a.res[0][which].ret, a.res[0][which].err, (unsigned long long)a.res[0][which].digest);
            printf("  in a renewed thread:     ret=%lld errno=%d digest=%016llx\n", (long long)b.res[0][which].ret, b.res[0][which].err, (unsigned long long)b.res[0][which].digest);
            return 1;
        }
        printf("NOT-REPRODUCED property=C12 key=%s (a1=%d a2=%d)\n", key.c_str(), a1, a2);
        return 0;
    }
    if (cls == "interference") {
        int fn = meta["function"] == "*" ? -1 : fn_by_name(meta["function"].c_str());
        Mismatch mm;
        uint64_t h1 = 0, h2 = 0;
        bool a1 = still_fails(plan, sched, key, fn, &mm, &h1);
        bool a2 = still_fails(plan, sched, key, fn, &mm, &h2);
        if (a1 && a2 && h1 == h2) {
            Solo s;
            run_solo(plan, s);
            ReplayStrategy st(sched, (int)plan.tasks.size());
            PassResult pr;
            run_pass(plan, api_cfg(PASS_CONC, -1, false), st, pr);
            printf("REPRODUCED property=C12 class=interference key=%s victim=task%d/op%d loghash=%016llx\n", key.c_str(), mm.task, mm.op, (unsigned long long)h1);
            printf("  alone:       ret=%lld errno=%d digest=%016llx\n", (long long)s.res[mm.task][mm.op].ret, s.res[mm.task][mm.op].err, (unsigned long long)s.res[mm.task][mm.op].digest);
            printf("  interleaved: ret=%lld errno=%d digest=%016llx\n", (long long)pr.res[mm.task][mm.op].ret, pr.res[mm.task][mm.op].err, (unsigned long long)pr.res[mm.task][mm.op].digest);
            {
                const OpResult &x = s.res[mm.task][mm.op], &y = pr.res[mm.task][mm.op];
                if (x.out != y.out) printf("  stream output alone:       %s\n  stream output interleaved: %s\n", jstr(x.out).c_str(), jstr(y.out).c_str());
                if (x.arena_hash != y.arena_hash) printf("  caller memory differs after the call\n");
                if (x.hcalls.size() != y.hcalls.size()) printf("  handler invocations: alone %zu, interleaved %zu\n", x.hcalls.size(), y.hcalls.size());
            }
            return 1;
        }
        printf("NOT-REPRODUCED property=C12 key=%s (a1=%d a2=%d)\n", key.c_str(), a1, a2);
        return 0;
    }
    if (cls == "crash") {
        // re-execute exactly; a crash ends the process through the fatal-signal handler (exit code 100+signal)
        std::string phase = meta["phase"];
        if (phase == "solo" || phase == "renew") {
            int t = atoi(meta["solo_task"].c_str());
            Solo s;
            run_solo(plan, s, t, phase == "renew");
        } else {
            ReplayStrategy st(sched, (int)plan.tasks.size());
            PassResult pr;
            run_pass(plan, api_cfg(PASS_CONC, -1, false), st, pr);
        }
        printf("NOT-REPRODUCED property=C12 class=crash (no crash)\n");
        return 0;
    }
    fprintf(stderr, "unknown class %s\n", cls.c_str());
    return 2;
}
