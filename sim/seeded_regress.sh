#!/bin/bash
# seeded_regress.sh [ids...] -- run every seeded change under /verif/seeded through the quick check of its property
# (scratch worktree + own build dir, see mutant_run.sh) and report which are still caught.
cd /verif
ids=${@:-$(ls seeded)}
pass=0; fail=0
for id in $ids; do
  [ -f seeded/$id/patch.diff ] || continue
  prop=$(python3 -c "import json;print(json.load(open('/verif/seeded/$id/meta.json'))['property'])")
  out=$(SHOW=1 sim/mutant_run.sh $id $prop 2>&1 | head -2)
  rc=$(echo "$out" | grep -o "rc=[0-9]*" | head -1)
  exp=$(python3 -c "import json;print(json.load(open('/verif/seeded/$id/meta.json')).get('detected_by_quick_check', True))")
  if [ "$rc" = "rc=1" ]; then pass=$((pass+1)); echo "CAUGHT  $id ($prop) $(echo "$out" | head -1 | sed 's/.*check/check/')"
  elif [ "$exp" = "False" ]; then echo "KNOWN-MISS $id ($prop) $rc (recorded as not caught, see meta.json)"
  else fail=$((fail+1)); echo "MISSED  $id ($prop) $rc"; fi
done
echo "seeded changes caught: $pass, missed: $fail"
