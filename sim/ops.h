// Op table of the whole-API workload (DESIGN.md Appendix A).
#pragma once
#include "sim.h"

// families
enum Fam {
    FAM_INPLACE, FAM_COPY, FAM_NCOPY, FAM_FILL, FAM_CMP, FAM_SEARCH, FAM_CONV,
    FAM_FMT, FAM_WFMT, FAM_SFMT, FAM_SCAN, FAM_TOK, FAM_TIME, FAM_SORT, FAM_UNI, FAM_FILE, FAM_NFAM
};

// X(name, family, uses_stdio)
#define FN_LIST(X) \
  /* in place (dest a0, dmax a1, bos a2) */ \
  X(strzero_s, FAM_INPLACE, 0) X(strljustify_s, FAM_INPLACE, 0) X(strremovews_s, FAM_INPLACE, 0) \
  X(strtolowercase_s, FAM_INPLACE, 0) X(strtouppercase_s, FAM_INPLACE, 0) X(strnterminate_s, FAM_INPLACE, 0) \
  X(strisalphanumeric_s, FAM_INPLACE, 0) X(strisascii_s, FAM_INPLACE, 0) X(strisdigit_s, FAM_INPLACE, 0) \
  X(strishex_s, FAM_INPLACE, 0) X(strislowercase_s, FAM_INPLACE, 0) X(strismixedcase_s, FAM_INPLACE, 0) \
  X(strispassword_s, FAM_INPLACE, 0) X(strisuppercase_s, FAM_INPLACE, 0) \
  X(memzero_s, FAM_INPLACE, 0) X(memzero16_s, FAM_INPLACE, 0) X(memzero32_s, FAM_INPLACE, 0) \
  X(wcslwr_s, FAM_INPLACE, 0) X(wcsupr_s, FAM_INPLACE, 0) X(strnlen_s, FAM_INPLACE, 0) X(wcsnlen_s, FAM_INPLACE, 0) \
  /* copy (dest a0, dmax a1, src a2, destbos a3, srcbos a4, errp a5) */ \
  X(strcpy_s, FAM_COPY, 0) X(strcat_s, FAM_COPY, 0) X(wcscpy_s, FAM_COPY, 0) X(wcscat_s, FAM_COPY, 0) X(stpcpy_s, FAM_COPY, 0) \
  /* bounded copy (dest a0, dmax a1, src a2, slen a3, destbos a4, srcbos a5, extra a6) */ \
  X(strncpy_s, FAM_NCOPY, 0) X(strncat_s, FAM_NCOPY, 0) X(stpncpy_s, FAM_NCOPY, 0) X(wcsncpy_s, FAM_NCOPY, 0) \
  X(wcsncat_s, FAM_NCOPY, 0) X(strcpyfld_s, FAM_NCOPY, 0) X(strcpyfldin_s, FAM_NCOPY, 0) X(strcpyfldout_s, FAM_NCOPY, 0) \
  X(memcpy_s, FAM_NCOPY, 0) X(memcpy16_s, FAM_NCOPY, 0) X(memcpy32_s, FAM_NCOPY, 0) X(memmove_s, FAM_NCOPY, 0) \
  X(memmove16_s, FAM_NCOPY, 0) X(memmove32_s, FAM_NCOPY, 0) X(wmemcpy_s, FAM_NCOPY, 0) X(wmemmove_s, FAM_NCOPY, 0) \
  X(memccpy_s, FAM_NCOPY, 0) \
  /* fill (dest a0, dmax a1, value a2, n a3, bos a4) */ \
  X(memset_s, FAM_FILL, 0) X(memset16_s, FAM_FILL, 0) X(memset32_s, FAM_FILL, 0) X(strset_s, FAM_FILL, 0) \
  X(strnset_s, FAM_FILL, 0) X(wcsset_s, FAM_FILL, 0) X(wcsnset_s, FAM_FILL, 0) \
  /* compare (dest a0, dmax a1, src a2, smax a3, resultp a4, destbos a5, srcbos a6, extra a7) */ \
  X(strcmp_s, FAM_CMP, 0) X(strcasecmp_s, FAM_CMP, 0) X(strnatcmp_s, FAM_CMP, 0) X(strcmpfld_s, FAM_CMP, 0) \
  X(strcoll_s, FAM_CMP, 0) X(strprefix_s, FAM_CMP, 0) X(memcmp_s, FAM_CMP, 0) X(memcmp16_s, FAM_CMP, 0) \
  X(memcmp32_s, FAM_CMP, 0) X(wmemcmp_s, FAM_CMP, 0) X(wcscmp_s, FAM_CMP, 0) X(wcsncmp_s, FAM_CMP, 0) \
  X(wcsicmp_s, FAM_CMP, 0) X(wcsnatcmp_s, FAM_CMP, 0) X(wcscoll_s, FAM_CMP, 0) X(timingsafe_bcmp, FAM_CMP, 0) \
  X(timingsafe_memcmp, FAM_CMP, 0) X(strfirstdiff_s, FAM_CMP, 0) X(strlastdiff_s, FAM_CMP, 0) \
  X(strfirstsame_s, FAM_CMP, 0) X(strlastsame_s, FAM_CMP, 0) \
  /* search (dest a0, dmax a1, src a2, slen a3, outp a4, destbos a5, srcbos a6, ch a7) */ \
  X(strstr_s, FAM_SEARCH, 0) X(strcasestr_s, FAM_SEARCH, 0) X(strpbrk_s, FAM_SEARCH, 0) X(strspn_s, FAM_SEARCH, 0) \
  X(strcspn_s, FAM_SEARCH, 0) X(wcsstr_s, FAM_SEARCH, 0) X(strchr_s, FAM_SEARCH, 0) X(strrchr_s, FAM_SEARCH, 0) \
  X(strfirstchar_s, FAM_SEARCH, 0) X(strlastchar_s, FAM_SEARCH, 0) X(memchr_s, FAM_SEARCH, 0) X(memrchr_s, FAM_SEARCH, 0) \
  /* conversions (retvalp a0, dest a1, dmax a2, src a3 | wc a3, len a4, bos a5, ps a7) */ \
  X(mbstowcs_s, FAM_CONV, 0) X(mbsrtowcs_s, FAM_CONV, 0) X(wcstombs_s, FAM_CONV, 0) X(wcsrtombs_s, FAM_CONV, 0) \
  X(wcrtomb_s, FAM_CONV, 0) X(wctomb_s, FAM_CONV, 0) \
  /* format to buffer (dest a0, dmax a1, bos a2, fmt a3, nargs a4, classes a5, v a6..a8) */ \
  X(sprintf_s, FAM_FMT, 0) X(vsprintf_s, FAM_FMT, 0) X(snprintf_s, FAM_FMT, 0) X(vsnprintf_s, FAM_FMT, 0) \
  X(swprintf_s, FAM_WFMT, 0) X(vswprintf_s, FAM_WFMT, 0) X(snwprintf_s, FAM_WFMT, 0) X(vsnwprintf_s, FAM_WFMT, 0) \
  /* format to stream (fmt a3, nargs a4, classes a5, v a6..a8; a0 = 0 stream ok, <0 NULL stream) */ \
  X(fprintf_s, FAM_SFMT, 0) X(vfprintf_s, FAM_SFMT, 0) X(fwprintf_s, FAM_SFMT, 0) X(vfwprintf_s, FAM_SFMT, 0) \
  X(printf_s, FAM_SFMT, 1) X(vprintf_s, FAM_SFMT, 1) X(wprintf_s, FAM_SFMT, 1) X(vwprintf_s, FAM_SFMT, 1) \
  /* scan (src a0 (buffer variants), fmt a1, out pointers a2..a5) */ \
  X(sscanf_s, FAM_SCAN, 0) X(vsscanf_s, FAM_SCAN, 0) X(swscanf_s, FAM_SCAN, 0) X(vswscanf_s, FAM_SCAN, 0) \
  X(fscanf_s, FAM_SCAN, 0) X(vfscanf_s, FAM_SCAN, 0) X(fwscanf_s, FAM_SCAN, 0) X(vfwscanf_s, FAM_SCAN, 0) \
  X(scanf_s, FAM_SCAN, 1) X(vscanf_s, FAM_SCAN, 1) X(wscanf_s, FAM_SCAN, 1) X(vwscanf_s, FAM_SCAN, 1) \
  X(gets_s, FAM_SCAN, 1) \
  /* tokenise (dest a0 | -1, dmaxp a1, delim a2, ptr a3, bos a4) */ \
  X(strtok_s, FAM_TOK, 0) X(wcstok_s, FAM_TOK, 0) \
  /* time, error, environment */ \
  X(asctime_s, FAM_TIME, 0) X(ctime_s, FAM_TIME, 0) X(gmtime_s, FAM_TIME, 0) X(localtime_s, FAM_TIME, 0) \
  X(strerror_s, FAM_TIME, 0) X(strerrorlen_s, FAM_TIME, 0) X(getenv_s, FAM_TIME, 0) \
  /* sort / search */ \
  X(qsort_s, FAM_SORT, 0) X(bsearch_s, FAM_SORT, 0) \
  /* unicode */ \
  X(towfc_s, FAM_UNI, 0) X(iswfc, FAM_UNI, 0) X(wcsfc_s, FAM_UNI, 0) X(wcsnorm_s, FAM_UNI, 0) \
  X(wcsnorm_decompose_s, FAM_UNI, 0) X(wcsnorm_reorder_s, FAM_UNI, 0) X(wcsnorm_compose_s, FAM_UNI, 0) \
  /* files */ \
  X(fopen_s, FAM_FILE, 0) X(freopen_s, FAM_FILE, 0) X(tmpfile_s, FAM_FILE, 0)

enum FnId {
#define X(n, f, s) FN_##n,
    FN_LIST(X)
#undef X
    FN_COUNT
};
struct FnInfo {
    const char *name;
    Fam fam;
    int uses_stdio;
};
extern const FnInfo g_fn[FN_COUNT];
int fn_by_name(const char *name);
extern const char *g_fam_name[FAM_NFAM];

// executes one op against the real library (sets t.in_op around the call)
void exec_api_op(Task &t, const Op &op, OpResult &r);

// argument classes of variadic calls
enum { CLS_I = 0, CLS_D = 1, CLS_L = 2 };

// plan generation (gen.cc)
struct GenCfg {
    std::vector<int> fams;    // enabled families
    int ntasks = 2;
    int max_ops = 6;
    bool faults = true;
    bool violations = true;
    bool allow_stdio = true;
    bool adjacent = false;      // C12: neighbouring tasks' first destinations share a machine word
    int force_edge = 0;         // (set per op by gen_plan)
    bool force_violation = false; // every generated op carries a documented violation (C13 tier 3)
    bool alloc_focus = false; // C20: only emit ops from the site-directed generators
    bool no_edges = false;    // C13: no buffer flush against a neighbouring task's memory
    bool reuse = true;        // a quarter of the tasks end with calls that re-use the buffers of an earlier call for new contents
};
void gen_plan(Rng &r, const GenCfg &cfg, Plan &plan);
// a single op of family fam appended to task tp, allocating arena space at *top; false if out of space
bool gen_op(Rng &r, int fam, TaskPlan &tp, uint32_t *top, const GenCfg &cfg, bool stdio_ok, int locale);
bool gen_alloc_op(Rng &r, TaskPlan &tp, uint32_t *top, int locale); // C20 site-directed

// replay file I/O (text format)
std::string plan_to_text(const Plan &p);
std::string sched_to_text(const Schedule &s);
bool parse_replay(const std::string &text, std::map<std::string, std::string> &meta, Plan &p, Schedule &s);
std::string op_to_json(const Op &op);
