#!/bin/bash
# try_mutant.sh <worktree> <PROP> [runs]  -- confirm a seeded change (demo fails with it / passes without it, suite
# passes with it) and run the registered quick check of PROP against it in a scratch worktree of /repo with its own
# build directory (see mutant_run.sh); /repo itself is not touched.
wt=$1; prop=$2; runs=${3:-}
set -u
here=$(cd "$(dirname "$0")" && pwd)
cd "$wt" || exit 2
echo "== demo with change"; bash demo/run.sh > /tmp/p/demo_with.log 2>&1; echo "demo exit (with change): $?"
echo "== make check with change"; make -j8 check > /tmp/p/mcheck.log 2>&1; echo "make check exit: $?  $(grep -E '^# (PASS|FAIL)' /tmp/p/mcheck.log | tr '\n' ' ')"
echo "== demo without change"
git apply -R mutant.diff && make -j8 > /dev/null 2>&1; bash demo/run.sh > /tmp/p/demo_without.log 2>&1; echo "demo exit (without change): $?"
git apply mutant.diff && make -j8 > /dev/null 2>&1
echo "== /verif check against the change (scratch worktree)"
rm -rf /verif/seeded/_tmp; mkdir -p /verif/seeded/_tmp; cp "$wt/mutant.diff" /verif/seeded/_tmp/patch.diff
SHOW=${SHOW:-8} $here/mutant_run.sh _tmp $prop $runs
cp /tmp/wt/m-_tmp.log /tmp/p/mut_check.log
rm -rf /verif/seeded/_tmp
