#!/bin/bash
# try_mutant.sh <worktree> <PROP> [runs]  -- confirm a seeded change (demo fails with it / passes without it, suite passes)
# and run the registered quick check of PROP against it, applied temporarily to /repo.
wt=$1; prop=$2; runs=${3:-}
set -u
cd "$wt" || exit 2
echo "== demo with change"; bash demo/run.sh > /tmp/p/demo_with.log 2>&1; echo "demo exit (with change): $?"
echo "== make check with change"; make -j16 check > /tmp/p/mcheck.log 2>&1; echo "make check exit: $?  $(grep -E '^# (PASS|FAIL)' /tmp/p/mcheck.log | tr '\n' ' ')"
echo "== demo without change"
git apply -R mutant.diff && make -j16 > /dev/null 2>&1; bash demo/run.sh > /tmp/p/demo_without.log 2>&1; echo "demo exit (without change): $?"
git apply mutant.diff && make -j16 > /dev/null 2>&1
echo "== /verif check against the change"
if ! git -C /repo apply --check "$wt/mutant.diff"; then echo "patch does not apply to /repo"; exit 2; fi
git -C /repo apply "$wt/mutant.diff"
cd /verif
if [ -n "$runs" ]; then VERIF_RUNS=$runs sim/check $prop > /tmp/p/mut_check.log 2>&1; else sim/check $prop > /tmp/p/mut_check.log 2>&1; fi
echo "check exit: $?"
git -C /repo checkout -- .
git -C /repo status --short | head -3
grep -E "^VIOLATION|^  key=|^check|KNOWN" /tmp/p/mut_check.log | cut -c1-400
