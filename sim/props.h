// Per-property drivers.
#pragma once
#include "sim.h"

struct Args {
    std::string prop, mode; // mode: batch | replay | dump
    uint64_t seed = 1;
    uint64_t from = 0, to = 0, stride = 1;
    int worker = 0;
    int schedules = 8;
    int min_budget = 400;
    int tier2 = 1;
    std::string outdir = "/verif/out/replays";
    std::string fpfile;
    std::string replay;
    std::string sites;
};

PassCfg api_cfg(PassMode mode, int who, bool track);
extern std::string g_outdir;
std::string write_replay(const char *prop, const std::string &cls, const std::string &key, uint64_t seed, uint64_t run,
                         const Plan &plan, const Schedule &sched, const std::string &extra);

void drop_task(Plan &p, Schedule &s, int t);
void drop_op(Plan &p, Schedule &s, int t, int o);

int c12_batch(const Args &a);
int c12_replay(const std::string &path);
int c13_batch(const Args &a);
int c13_replay(const std::string &path);
int c20_batch(const Args &a);
int c20_replay(const std::string &path);
