"""Evidence for C12 from the merged worker statistics."""

# functions whose pre-fix implementation used static scratch storage: the workload must reach
# them, preempt inside them, and run the same function in the window
ANCHORED = ['qsort_s', 'asctime_s', 'ctime_s', 'sprintf_s', 'vsprintf_s', 'snprintf_s', 'vsnprintf_s',
            'swprintf_s', 'vswprintf_s', 'snwprintf_s', 'vsnwprintf_s', 'tmpfile_s', 'strtok_s', 'wcstok_s',
            'localtime_s', 'gmtime_s', 'strerror_s', 'wcsnorm_s', 'fprintf_s', 'printf_s']
# library-internal code paths behind the anchors (coverage-guard hits, by symbol)
PATH_SYMS = ['qsort_s.c:trinkle', '_qsort_s_chk', 'vsnprintf_s.c:safec_ftoa_long', 'vsnprintf_s.c:safec_atoa', '_asctime_s_chk', '_ctime_s_chk',
             '_swprintf_s_chk', '_vswprintf_s_chk', '_snwprintf_s_chk', '_vsnwprintf_s_chk', 'tmpfile_s']


def evidence(c):
    st = c['stats']
    fn = st.get('fn', {})
    cov = st.get('coverage', {})
    gaps = []
    reach = {}
    for f in ANCHORED:
        v = fn.get(f, [0, 0, 0])
        reach[f] = dict(ops=v[0], preempted_inside=v[1], same_function_in_window=v[2])
        if v[0] == 0:
            gaps.append('%s never executed' % f)
        elif v[1] == 0 and f not in ('tmpfile_s',):
            gaps.append('no preemption landed inside %s' % f)
    paths = {}
    covtot = st.get('coverage_total', {})
    for s in PATH_SYMS:
        hit = sum(n for k, n in cov.items() if k == s or k.endswith(':' + s) or k == s.split(':')[-1])
        paths[s] = hit
        present = any(k == s or k.endswith(':' + s) or k == s.split(':')[-1] for k in covtot)
        if hit == 0 and present:
            gaps.append('code path %s not reached' % s)
        elif hit == 0:
            paths[s] = 'no such symbol in this build (renamed or inlined)'
    percov = dict((f, (cov.get(f, 0), covtot[f])) for f in covtot)
    unreached_funcs = sorted(f for f, (h, t) in percov.items() if h == 0)
    never = sorted(f for f, v in fn.items() if v[0] == 0)
    if never:
        gaps.append('API functions never executed: ' + ','.join(never[:12]))
    sched = st.get('sched_exec', 0)
    wall = c['wall']
    samples = c['batch'].samples[:3]
    for key, kf, v in c['known_seen']:
        samples.append(dict(known_finding=key, replay=v.get('replay')))
    for key, v in c['reported']:
        samples.append(dict(violation=key, replay=v.get('replay'), detail=v.get('detail')))
    coverage = dict(
        evaluations=int(sched + st.get('plans', 0) * 1),
        distinct_nontrivial=len(c['fps']),
        rule=('one evaluation = one execution of a generated plan (2-4 caller threads x 1-9 library calls with literal arguments and attached '
              'faults, drawn from the whole exported API by family) under one seeded schedule, compared call by call with the same plan run '
              'thread by thread alone; plus one solo pass per plan in which the library\'s .data/.bss are compared around every call (S), and one more '
              'solo pass per plan in which the library\'s per-thread state (its thread-local block, values under keys it created) is renewed before '
              'every call and every call must give what it gave in the plain solo pass (H: nothing carried from call to call inside a thread). '
              'A fifth of the plans are adjacent-data plans (two tasks whose first buffers share a machine word); for those, one more schedule '
              'per recorded conflict point (an event at which a call touches a word shared with the neighbour) is executed, the other task run '
              'to its end exactly there. '
              'distinct_nontrivial = number of distinct schedule fingerprints (hash of plan and of the sequence of context switches in '
              'task-relative coordinates, event index bucketed by 16) among executions in which at least one context switch landed strictly '
              'inside a library call; counted as the union over all workers'),
        samples=samples,
        plans=st.get('plans', 0),
        plans_with_adjacent_buffers_sharing_a_word=st.get('adjacent_plans', 0),
        schedule_executions=sched,
        scheduler_steps=st.get('events', 0),
        context_switches=st.get('switches', 0),
        switches_inside_calls=st.get('inner_switches', 0),
        library_calls_in_plans=st.get('ops', 0),
        strategies=dict(sequential=st.get('strat_sequential', 0), uniform=st.get('strat_uniform', 0), pct=st.get('strat_pct', 0), targeted=st.get('strat_targeted', 0)),
        fault_kinds_fired=dict(file_system_call_failed=st.get('faults_sys', 0), alloc_fail=st.get('faults_alloc', 0), stream_write_error_or_short=st.get('faults_wr', 0), stream_read_error=st.get('faults_rd', 0),
                               preemption_inside_call=st.get('inner_switches', 0)),
        conflict_pairs_distinct=len(c['triples']),
        ops_per_family=st.get('fam_ops', {}),
        reach=reach,
        static_path_guard_hits=paths,
        library_functions_with_coverage=len(cov),
        coverage_guards_total=st.get('nguards', 0),
        coverage_guards_hit=sum(cov.values()),
        coverage_edge_percent=round(100.0 * sum(cov.values()) / max(1, sum(covtot.values())), 1),
        library_functions_never_entered=unreached_funcs,
        lowest_covered_functions=sorted(((round(100.0 * h / t), f, h, t) for f, (h, t) in percov.items() if t >= 8 and h > 0), key=lambda x: x[0])[:25],
        footprint_ops_in_solo_pass=st.get('footprint_ops', 0),
        static_objects_written_only_by_one_time_initialisers_exempt_from_S=sorted(c['batch'].once_syms),
        conflict_point_schedules_enumerated_in_adjacent_plans=st.get('enumerated_conflict_schedules', 0),
        calls_compared_with_renewed_thread_state=st.get('carry_ops', 0),
        digest_mismatches=st.get('mismatches', 0),
        unstable_candidates=st.get('unstable', 0) + len(c['batch'].unstable),
        solo_crashes=len(c['solo_crashes']),
        solo_crash_samples=[dict(run=x.get('run'), replay=x.get('replay')) for x in c['solo_crashes'][:5]],
        determinism_gate=dict(runs_compared_across_processes=c['det']['compared'], mismatches=c['det']['mismatches'],
                              in_process_schedule_replays=st.get('det_checked', 0), in_process_mismatches=st.get('nondeterministic', 0)),
        worker_restarts=c['batch'].restarts,
        runs_per_hour=int(sched / max(c['t_main'], 1e-9) * 3600),
        simulated_time='none: the library has no clock, timer or timeout; progress is measured in scheduler steps',
        components=dict(real=['all of safeclib built from /repo working tree (140 sources, clang -O1, coverage callbacks as yield points)', 'glibc', 'pthreads / TLS'],
                        simulated=['choice of running thread (baton scheduler)', 'allocator verdicts for library requests', 'FILE* byte sinks/sources (fopencookie)', 'constraint handler (logging)', 'environment (TZ, locale, environ)']),
        known_findings=[k for k, _, _ in c['known_seen']],
        gaps=gaps,
        exhaustive=False,
    )
    if c.get('asan_stats'):
        a = c['asan_stats']
        coverage['asan_variant'] = dict(plans=a.get('plans', 0), schedule_executions=a.get('sched_exec', 0), crashes=len(c['asan'].crashes))
    return dict(
        property_id='C12', tier=c['tier'], seed=c['seed'], level=c['level'], coverage=coverage,
        assumptions=['the instrumented clang -O1 build has the same storage durations and control flow as the shipped gcc build (same sources, same config.h)',
                     'sequentially consistent interleaving at the granularity of library basic blocks and memory accesses; weak-memory effects are not modelled',
                     'windows in which only libc code runs offer no preemption point (covered by the state invariant, not by interleaving)',
                     'x86-64, glibc; locale in {C, C.UTF-8}; TZ=UTC'],
        wall_s=round(wall, 2), violations=len(c['reported']))
