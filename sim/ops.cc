// Executor of the whole-API workload: one generic Op -> one call of the real library.
#include "ops.h"
#include <errno.h>
#include <fcntl.h>
#include <stdarg.h>
#include <wchar.h>
#include <time.h>
#include <stdbool.h>
extern "C" {
#include "safe_lib.h"
#include "safe_str_lib.h"
#include "safe_mem_lib.h"
}

const FnInfo g_fn[FN_COUNT] = {
#define X(n, f, s) {#n, f, s},
    FN_LIST(X)
#undef X
};
const char *g_fam_name[FAM_NFAM] = {"inplace", "copy", "ncopy", "fill", "cmp", "search", "conv", "fmt",
                                    "wfmt", "sfmt", "scan", "tok", "time", "sort", "uni", "file"};
int fn_by_name(const char *name) {
    for (int i = 0; i < FN_COUNT; i++)
        if (!strcmp(g_fn[i].name, name)) return i;
    return -1;
}

// ------------------------------------------------------------------ cookie streams
struct CookieCall {
    Task *t;
    char *buf;
    size_t n;
    ssize_t result;
};
static ssize_t wr_cookie_body(void *c, const char *buf, size_t n);
static ssize_t rd_cookie_body(void *c, char *buf, size_t n);
static void wr_tramp(void *p) { CookieCall *c = (CookieCall *)p; c->result = wr_cookie_body(c->t, c->buf, c->n); }
static void rd_tramp(void *p) { CookieCall *c = (CookieCall *)p; c->result = rd_cookie_body(c->t, c->buf, c->n); }
// the cookie callbacks run on the task's alternate stack (sim.h: alt_call)
static ssize_t wr_cookie(void *c, const char *buf, size_t n) {
    CookieCall cc = {(Task *)c, (char *)buf, n, 0};
    alt_call(wr_tramp, &cc);
    return cc.result;
}
static ssize_t rd_cookie(void *c, char *buf, size_t n) {
    CookieCall cc = {(Task *)c, buf, n, 0};
    alt_call(rd_tramp, &cc);
    return cc.result;
}
static ssize_t wr_cookie_body(void *c, const char *buf, size_t n) {
    Task *t = (Task *)c;
    if (!t->op) return (ssize_t)n;
    const Fault &f = t->op->f;
    OpResult &r = t->res[t->cur_op];
    if (f.wr_fail_at >= 0) {
        if ((long)t->wr_bytes >= f.wr_fail_at) {
            r.wr_faults++;
            errno = f.wr_errno ? f.wr_errno : EIO;
            return 0;
        }
        if (t->wr_bytes + n > (size_t)f.wr_fail_at) n = f.wr_fail_at - t->wr_bytes;
    }
    if (f.wr_chunk > 0 && n > (size_t)f.wr_chunk) n = f.wr_chunk;
    r.out.append(buf, n);
    t->wr_bytes += n;
    return (ssize_t)n;
}
static ssize_t rd_cookie_body(void *c, char *buf, size_t n) {
    Task *t = (Task *)c;
    if (!t->op) return 0;
    const Fault &f = t->op->f;
    OpResult &r = t->res[t->cur_op];
    const std::string &in = t->op->in;
    if (f.rd_err_at >= 0 && (long)t->rd_pos >= f.rd_err_at) {
        r.rd_faults++;
        errno = f.rd_errno ? f.rd_errno : EIO;
        return -1;
    }
    size_t avail = in.size() - std::min(in.size(), t->rd_pos);
    if (n > avail) n = avail;
    if (f.rd_err_at >= 0 && t->rd_pos + n > (size_t)f.rd_err_at) n = f.rd_err_at - t->rd_pos;
    if (f.rd_chunk > 0 && n > (size_t)f.rd_chunk) n = f.rd_chunk;
    memcpy(buf, in.data() + t->rd_pos, n);
    t->rd_pos += n;
    return (ssize_t)n;
}
static void apply_bufmode(FILE *f, int mode) {
    if (mode == 1) setvbuf(f, nullptr, _IONBF, 0);
    else if (mode == 2) setvbuf(f, nullptr, _IOLBF, 256);
    else if (mode == 3) setvbuf(f, nullptr, _IOFBF, 16);
}
static int devnull_fd() {
    static int fd = -1;
    if (fd < 0) fd = open("/dev/null", O_RDWR | O_CLOEXEC);
    return fd;
}
static FILE *open_wr(Task &t, bool becomes_stdout) {
    cookie_io_functions_t io = {nullptr, wr_cookie, nullptr, nullptr};
    FILE *f = fopencookie(&t, "w", io);
    // vfprintf_s rejects streams without a descriptor (fileno() < 0); a cookie stream has none. Give it one:
    // glibc never uses the descriptor of a cookie stream, all I/O goes through the callbacks.
    if (f) f->_fileno = devnull_fd();
    int mode = t.op->f.bufmode;
    // glibc flushes a line-buffered `stdout` whenever ANY thread reads from an unbuffered or line-buffered
    // stream. That is libc acting on the process-wide stdout object (shared caller data, outside C12's
    // "disjoint caller data"), so the stream standing in for stdout is never line-buffered.
    if (becomes_stdout && mode == 2) mode = 3;
    apply_bufmode(f, mode);
    return f;
}
static FILE *open_rd(Task &t) {
    cookie_io_functions_t io = {rd_cookie, nullptr, nullptr, nullptr};
    FILE *f = fopencookie(&t, "r", io);
    apply_bufmode(f, t.op->f.bufmode);
    return f;
}

// ------------------------------------------------------------------ variadic dispatch
struct VArgs {
    int n = 0;
    int cls[3] = {0, 0, 0};
    long long iv[3] = {0, 0, 0};
    double dv[3] = {0, 0, 0};
    long double lv[3] = {0, 0, 0};
};
template <class F, class... A> static int64_t vstep(F &f, const VArgs &v, int i, A... a) {
    if constexpr (sizeof...(A) < 3) {
        if (i < v.n) {
            switch (v.cls[i]) {
            case CLS_D: return vstep(f, v, i + 1, a..., v.dv[i]);
            case CLS_L: return vstep(f, v, i + 1, a..., v.lv[i]);
            default: return vstep(f, v, i + 1, a..., v.iv[i]);
            }
        }
    }
    return f(a...);
}

typedef int (*vfmt_fn)(char *, rsize_t, size_t, const char *, va_list);
typedef int (*vwfmt_fn)(wchar_t *, rsize_t, size_t, const wchar_t *, va_list);
static int tramp_v(vfmt_fn f, char *d, rsize_t n, size_t bos, const char *fmt, ...) {
    va_list ap;
    va_start(ap, fmt);
    int r = f(d, n, bos, fmt, ap);
    va_end(ap);
    return r;
}
static int tramp_vw(vwfmt_fn f, wchar_t *d, rsize_t n, size_t bos, const wchar_t *fmt, ...) {
    va_list ap;
    va_start(ap, fmt);
    int r = f(d, n, bos, fmt, ap);
    va_end(ap);
    return r;
}
static int tramp_vf(int (*f)(FILE *, const char *, va_list), FILE *s, const char *fmt, ...) {
    va_list ap;
    va_start(ap, fmt);
    int r = f(s, fmt, ap);
    va_end(ap);
    return r;
}
static int tramp_vfw(int (*f)(FILE *, const wchar_t *, va_list), FILE *s, const wchar_t *fmt, ...) {
    va_list ap;
    va_start(ap, fmt);
    int r = f(s, fmt, ap);
    va_end(ap);
    return r;
}
static int tramp_vp(int (*f)(const char *, va_list), const char *fmt, ...) {
    va_list ap;
    va_start(ap, fmt);
    int r = f(fmt, ap);
    va_end(ap);
    return r;
}
static int tramp_vpw(int (*f)(const wchar_t *, va_list), const wchar_t *fmt, ...) {
    va_list ap;
    va_start(ap, fmt);
    int r = f(fmt, ap);
    va_end(ap);
    return r;
}
static int tramp_vss(int (*f)(const char *, const char *, va_list), const char *b, const char *fmt, ...) {
    va_list ap;
    va_start(ap, fmt);
    int r = f(b, fmt, ap);
    va_end(ap);
    return r;
}
static int tramp_vsw(int (*f)(const wchar_t *, const wchar_t *, va_list), const wchar_t *b, const wchar_t *fmt, ...) {
    va_list ap;
    va_start(ap, fmt);
    int r = f(b, fmt, ap);
    va_end(ap);
    return r;
}

// ------------------------------------------------------------------ comparator
struct CmpCtx {
    uint32_t klen;
    uint32_t calls;
};
static int cmp_ctx(const void *a, const void *b, void *c) {
    CmpCtx *x = (CmpCtx *)c;
    uint32_t k = 1;
    if (x) { x->calls++; k = x->klen; }
    sim_event();
    return memcmp(a, b, k);
}

// ------------------------------------------------------------------ the executor
#define A(i) (op.a[i])
#define P(i) (A(i) < 0 ? (void *)nullptr : (void *)(base + A(i)))
#define CP(i) ((char *)P(i))
#define WP(i) ((wchar_t *)P(i))
#define N(i) ((size_t)A(i))
#define B(i) (A(i) < 0 ? BOS_UNKNOWN : (size_t)A(i))
#define LIB(stmt) do { t.in_op = true; stmt; t.in_op = false; } while (0)
#define POFF(p) ((p) ? (int64_t)((const uint8_t *)(p) - base) : (int64_t)-1)

// what a caller does with a stream it has just been given, as part of the op: write, flush, close - with yield points
// in between, so that another task's call can run while this task holds the stream (descriptor numbers are
// process-wide: a call that closes a descriptor it no longer owns closes somebody else's)
static int64_t use_stream(Task &t, FILE *f) {
    t.in_op = true;
    sim_conflict_point();
    int w = fputc('x', f);
    int fl = fflush(f);
    sim_conflict_point();
    int c = fclose(f);
    t.in_op = false;
    return (w == EOF ? 1 : 0) + (fl != 0 ? 2 : 0) + (c != 0 ? 4 : 0);
}

void exec_api_op(Task &t, const Op &op, OpResult &r) {
    uint8_t *base = t.arena.base;
    int64_t ret = 0;
    switch (op.fn) {
    // ---------------- in place
    case FN_strzero_s: LIB(ret = _strzero_s_chk(CP(0), N(1), B(2))); break;
    case FN_strljustify_s: LIB(ret = _strljustify_s_chk(CP(0), N(1), B(2))); break;
    case FN_strremovews_s: LIB(ret = _strremovews_s_chk(CP(0), N(1), B(2))); break;
    case FN_strtolowercase_s: LIB(ret = _strtolowercase_s_chk(CP(0), N(1), B(2))); break;
    case FN_strtouppercase_s: LIB(ret = _strtouppercase_s_chk(CP(0), N(1), B(2))); break;
    case FN_strnterminate_s: LIB(ret = (int64_t)_strnterminate_s_chk(CP(0), N(1), B(2))); break;
    case FN_strisalphanumeric_s: LIB(ret = _strisalphanumeric_s_chk(CP(0), N(1), B(2))); break;
    case FN_strisascii_s: LIB(ret = _strisascii_s_chk(CP(0), N(1), B(2))); break;
    case FN_strisdigit_s: LIB(ret = _strisdigit_s_chk(CP(0), N(1), B(2))); break;
    case FN_strishex_s: LIB(ret = _strishex_s_chk(CP(0), N(1), B(2))); break;
    case FN_strislowercase_s: LIB(ret = _strislowercase_s_chk(CP(0), N(1), B(2))); break;
    case FN_strismixedcase_s: LIB(ret = _strismixedcase_s_chk(CP(0), N(1), B(2))); break;
    case FN_strispassword_s: LIB(ret = _strispassword_s_chk(CP(0), N(1), B(2))); break;
    case FN_strisuppercase_s: LIB(ret = _strisuppercase_s_chk(CP(0), N(1), B(2))); break;
    case FN_memzero_s: LIB(ret = _memzero_s_chk(P(0), N(1), B(2))); break;
    case FN_memzero16_s: LIB(ret = _memzero16_s_chk((uint16_t *)P(0), N(1), B(2))); break;
    case FN_memzero32_s: LIB(ret = _memzero32_s_chk((uint32_t *)P(0), N(1), B(2))); break;
    case FN_wcslwr_s: LIB(ret = _wcslwr_s_chk(WP(0), N(1), B(2))); break;
    case FN_wcsupr_s: LIB(ret = _wcsupr_s_chk(WP(0), N(1), B(2))); break;
    case FN_strnlen_s: LIB(ret = (int64_t)_strnlen_s_chk(CP(0), N(1), B(2))); break;
    case FN_wcsnlen_s: LIB(ret = (int64_t)_wcsnlen_s_chk(WP(0), N(1), B(2))); break;
    // ---------------- copy
    case FN_strcpy_s: LIB(ret = _strcpy_s_chk(CP(0), N(1), CP(2), B(3))); break;
    case FN_strcat_s: LIB(ret = _strcat_s_chk(CP(0), N(1), CP(2), B(3))); break;
    case FN_wcscpy_s: LIB(ret = _wcscpy_s_chk(WP(0), N(1), WP(2), B(3))); break;
    case FN_wcscat_s: LIB(ret = _wcscat_s_chk(WP(0), N(1), WP(2), B(3))); break;
    case FN_stpcpy_s: { char *p; LIB(p = _stpcpy_s_chk(CP(0), N(1), CP(2), (errno_t *)P(5), B(3), B(4))); ret = POFF(p); break; }
    // ---------------- bounded copy
    case FN_strncpy_s: LIB(ret = _strncpy_s_chk(CP(0), N(1), CP(2), N(3), B(4), B(5))); break;
    case FN_strncat_s: LIB(ret = _strncat_s_chk(CP(0), N(1), CP(2), N(3), B(4), B(5))); break;
    case FN_stpncpy_s: { char *p; LIB(p = _stpncpy_s_chk(CP(0), N(1), CP(2), N(3), (errno_t *)P(6), B(4), B(5))); ret = POFF(p); break; }
    case FN_wcsncpy_s: LIB(ret = _wcsncpy_s_chk(WP(0), N(1), WP(2), N(3), B(4), B(5))); break;
    case FN_wcsncat_s: LIB(ret = _wcsncat_s_chk(WP(0), N(1), WP(2), N(3), B(4), B(5))); break;
    case FN_strcpyfld_s: LIB(ret = _strcpyfld_s_chk(CP(0), N(1), CP(2), N(3), B(4))); break;
    case FN_strcpyfldin_s: LIB(ret = _strcpyfldin_s_chk(CP(0), N(1), CP(2), N(3), B(4))); break;
    case FN_strcpyfldout_s: LIB(ret = _strcpyfldout_s_chk(CP(0), N(1), CP(2), N(3), B(4))); break;
    case FN_memcpy_s: LIB(ret = _memcpy_s_chk(P(0), N(1), P(2), N(3), B(4), B(5))); break;
    case FN_memcpy16_s: LIB(ret = _memcpy16_s_chk((uint16_t *)P(0), N(1), (uint16_t *)P(2), N(3), B(4), B(5))); break;
    case FN_memcpy32_s: LIB(ret = _memcpy32_s_chk((uint32_t *)P(0), N(1), (uint32_t *)P(2), N(3), B(4), B(5))); break;
    case FN_memmove_s: LIB(ret = _memmove_s_chk(P(0), N(1), P(2), N(3), B(4), B(5))); break;
    case FN_memmove16_s: LIB(ret = _memmove16_s_chk((uint16_t *)P(0), N(1), (uint16_t *)P(2), N(3), B(4), B(5))); break;
    case FN_memmove32_s: LIB(ret = _memmove32_s_chk((uint32_t *)P(0), N(1), (uint32_t *)P(2), N(3), B(4), B(5))); break;
    case FN_wmemcpy_s: LIB(ret = _wmemcpy_s_chk(WP(0), N(1), WP(2), N(3), B(4), B(5))); break;
    case FN_wmemmove_s: LIB(ret = _wmemmove_s_chk(WP(0), N(1), WP(2), N(3), B(4), B(5))); break;
    case FN_memccpy_s: LIB(ret = _memccpy_s_chk(P(0), N(1), P(2), (int)A(6), N(3), B(4), B(5))); break;
    // ---------------- fill
    case FN_memset_s: LIB(ret = _memset_s_chk(P(0), N(1), (int)A(2), N(3), B(4))); break;
    case FN_memset16_s: LIB(ret = _memset16_s_chk((uint16_t *)P(0), N(1), (uint16_t)A(2), N(3), B(4))); break;
    case FN_memset32_s: LIB(ret = _memset32_s_chk((uint32_t *)P(0), N(1), (uint32_t)A(2), N(3), B(4))); break;
    case FN_strset_s: LIB(ret = _strset_s_chk(CP(0), N(1), (int)A(2), B(4))); break;
    case FN_strnset_s: LIB(ret = _strnset_s_chk(CP(0), N(1), (int)A(2), N(3), B(4))); break;
    case FN_wcsset_s: LIB(ret = _wcsset_s_chk(WP(0), N(1), (wchar_t)A(2), B(4))); break;
    case FN_wcsnset_s: LIB(ret = _wcsnset_s_chk(WP(0), N(1), (wchar_t)A(2), N(3), B(4))); break;
    // ---------------- compare
    case FN_strcmp_s: LIB(ret = _strcmp_s_chk(CP(0), N(1), CP(2), (int *)P(4), B(5), B(6))); break;
    case FN_strcasecmp_s: LIB(ret = _strcasecmp_s_chk(CP(0), N(1), CP(2), (int *)P(4), B(5))); break;
    case FN_strnatcmp_s: LIB(ret = _strnatcmp_s_chk(CP(0), N(1), CP(2), (int)A(7), (int *)P(4), B(5), B(6))); break;
    case FN_strcmpfld_s: LIB(ret = _strcmpfld_s_chk(CP(0), N(1), CP(2), (int *)P(4), B(5))); break;
    case FN_strcoll_s: LIB(ret = _strcoll_s_chk(CP(0), N(1), CP(2), (int *)P(4), B(5))); break;
    case FN_strprefix_s: LIB(ret = _strprefix_s_chk(CP(0), N(1), CP(2), B(5))); break;
    case FN_memcmp_s: LIB(ret = _memcmp_s_chk(P(0), N(1), P(2), N(3), (int *)P(4), B(5), B(6))); break;
    case FN_memcmp16_s: LIB(ret = _memcmp16_s_chk((uint16_t *)P(0), N(1), (uint16_t *)P(2), N(3), (int *)P(4), B(5), B(6))); break;
    case FN_memcmp32_s: LIB(ret = _memcmp32_s_chk((uint32_t *)P(0), N(1), (uint32_t *)P(2), N(3), (int *)P(4), B(5), B(6))); break;
    case FN_wmemcmp_s: LIB(ret = _wmemcmp_s_chk(WP(0), N(1), WP(2), N(3), (int *)P(4), B(5), B(6))); break;
    case FN_wcscmp_s: LIB(ret = _wcscmp_s_chk(WP(0), N(1), WP(2), N(3), (int *)P(4), B(5), B(6))); break;
    case FN_wcsncmp_s: LIB(ret = _wcsncmp_s_chk(WP(0), N(1), WP(2), N(3), N(7), (int *)P(4), B(5), B(6))); break;
    case FN_wcsicmp_s: LIB(ret = _wcsicmp_s_chk(WP(0), N(1), WP(2), N(3), (int *)P(4), B(5), B(6))); break;
    case FN_wcsnatcmp_s: LIB(ret = _wcsnatcmp_s_chk(WP(0), N(1), WP(2), N(3), (int)A(7), (int *)P(4), B(5), B(6))); break;
    case FN_wcscoll_s: LIB(ret = _wcscoll_s_chk(WP(0), N(1), WP(2), N(3), (int *)P(4), B(5), B(6))); break;
    case FN_timingsafe_bcmp: LIB(ret = _timingsafe_bcmp_chk(P(0), P(2), N(3), B(5), B(6))); break;
    case FN_timingsafe_memcmp: LIB(ret = _timingsafe_memcmp_chk(P(0), P(2), N(3), B(5), B(6))); break;
    case FN_strfirstdiff_s: LIB(ret = _strfirstdiff_s_chk(CP(0), N(1), CP(2), (rsize_t *)P(4), B(5))); break;
    case FN_strlastdiff_s: LIB(ret = _strlastdiff_s_chk(CP(0), N(1), CP(2), (rsize_t *)P(4), B(5))); break;
    case FN_strfirstsame_s: LIB(ret = _strfirstsame_s_chk(CP(0), N(1), CP(2), (rsize_t *)P(4), B(5))); break;
    case FN_strlastsame_s: LIB(ret = _strlastsame_s_chk(CP(0), N(1), CP(2), (rsize_t *)P(4), B(5))); break;
    // ---------------- search
    case FN_strstr_s: LIB(ret = _strstr_s_chk(CP(0), N(1), CP(2), N(3), (char **)P(4), B(5), B(6))); break;
    case FN_strcasestr_s: LIB(ret = _strcasestr_s_chk(CP(0), N(1), CP(2), N(3), (char **)P(4), B(5), B(6))); break;
    case FN_strpbrk_s: LIB(ret = _strpbrk_s_chk(CP(0), N(1), CP(2), N(3), (char **)P(4), B(5), B(6))); break;
    case FN_strspn_s: LIB(ret = _strspn_s_chk(CP(0), N(1), CP(2), N(3), (rsize_t *)P(4), B(5), B(6))); break;
    case FN_strcspn_s: LIB(ret = _strcspn_s_chk(CP(0), N(1), CP(2), N(3), (rsize_t *)P(4), B(5), B(6))); break;
    case FN_wcsstr_s: LIB(ret = _wcsstr_s_chk(WP(0), N(1), WP(2), N(3), (wchar_t **)P(4), B(5), B(6))); break;
    case FN_strchr_s: LIB(ret = _strchr_s_chk(CP(0), N(1), (int)A(7), (char **)P(4), B(5))); break;
    case FN_strrchr_s: LIB(ret = _strrchr_s_chk(CP(0), N(1), (int)A(7), (char **)P(4), B(5))); break;
    case FN_strfirstchar_s: LIB(ret = _strfirstchar_s_chk(CP(0), N(1), (char)A(7), (char **)P(4), B(5))); break;
    case FN_strlastchar_s: LIB(ret = _strlastchar_s_chk(CP(0), N(1), (char)A(7), (char **)P(4), B(5))); break;
    case FN_memchr_s: LIB(ret = _memchr_s_chk(P(0), N(1), (int)A(7), (void **)P(4), B(5))); break;
    case FN_memrchr_s: LIB(ret = _memrchr_s_chk(P(0), N(1), (int)A(7), (void **)P(4), B(5))); break;
    // ---------------- conversions
    case FN_mbstowcs_s: LIB(ret = _mbstowcs_s_chk((size_t *)P(0), WP(1), N(2), CP(3), N(4), B(5))); break;
    case FN_mbsrtowcs_s: {
        const char *sp = CP(3);
        LIB(ret = _mbsrtowcs_s_chk((size_t *)P(0), WP(1), N(2), A(6) < 0 ? nullptr : &sp, N(4), (mbstate_t *)P(7), B(5)));
        ret = ret * 100003 + POFF(sp);
        break;
    }
    case FN_wcstombs_s: LIB(ret = _wcstombs_s_chk((size_t *)P(0), CP(1), N(2), WP(3), N(4), B(5))); break;
    case FN_wcsrtombs_s: {
        const wchar_t *sp = WP(3);
        LIB(ret = _wcsrtombs_s_chk((size_t *)P(0), CP(1), N(2), A(6) < 0 ? nullptr : &sp, N(4), (mbstate_t *)P(7), B(5)));
        ret = ret * 100003 + POFF(sp);
        break;
    }
    case FN_wcrtomb_s: LIB(ret = _wcrtomb_s_chk((size_t *)P(0), CP(1), N(2), (wchar_t)A(3), (mbstate_t *)P(7), B(5))); break;
    case FN_wctomb_s: LIB(ret = _wctomb_s_chk((int *)P(0), CP(1), N(2), (wchar_t)A(3), B(5))); break;
    // ---------------- formatted output
    case FN_sprintf_s: case FN_vsprintf_s: case FN_snprintf_s: case FN_vsnprintf_s:
    case FN_swprintf_s: case FN_vswprintf_s: case FN_snwprintf_s: case FN_vsnwprintf_s:
    case FN_fprintf_s: case FN_vfprintf_s: case FN_fwprintf_s: case FN_vfwprintf_s:
    case FN_printf_s: case FN_vprintf_s: case FN_wprintf_s: case FN_vwprintf_s: {
        VArgs v;
        v.n = (int)A(4) > 3 ? 3 : (int)A(4);
        for (int i = 0; i < v.n; i++) {
            int c = (int)((A(5) >> (2 * i)) & 3);
            int64_t val = A(6 + i);
            if (c == 3) { v.cls[i] = CLS_I; v.iv[i] = (long long)(uintptr_t)(val < 0 ? nullptr : base + val); }
            else if (c == CLS_D) { v.cls[i] = CLS_D; memcpy(&v.dv[i], &val, 8); }
            else if (c == CLS_L) { v.cls[i] = CLS_L; double d; memcpy(&d, &val, 8); v.lv[i] = (long double)d * 1.0000000000000000001L; }
            else { v.cls[i] = CLS_I; v.iv[i] = val; }
        }
        char *d = CP(0);
        wchar_t *wd = WP(0);
        rsize_t n = N(1);
        size_t bos = B(2);
        const char *fmt = CP(3);
        const wchar_t *wfmt = WP(3);
        FILE *s = nullptr, *save = nullptr;
        bool stream = g_fn[op.fn].fam == FAM_SFMT;
        bool viastdout = stream && g_fn[op.fn].uses_stdio;
        if (stream && A(0) >= 0) s = open_wr(t, viastdout);
        if (viastdout) { save = stdout; stdout = s; }
        auto call = [&](auto... x) -> int64_t {
            int rr = 0;
            t.in_op = true;
            switch (op.fn) {
            case FN_sprintf_s: rr = _sprintf_s_chk(d, n, bos, fmt, x...); break;
            case FN_snprintf_s: rr = _snprintf_s_chk(d, n, bos, fmt, x...); break;
            case FN_vsprintf_s: rr = tramp_v(_vsprintf_s_chk, d, n, bos, fmt, x...); break;
            case FN_vsnprintf_s: rr = tramp_v(_vsnprintf_s_chk, d, n, bos, fmt, x...); break;
            case FN_swprintf_s: rr = _swprintf_s_chk(wd, n, bos, wfmt, x...); break;
            case FN_snwprintf_s: rr = _snwprintf_s_chk(wd, n, bos, wfmt, x...); break;
            case FN_vswprintf_s: rr = tramp_vw(_vswprintf_s_chk, wd, n, bos, wfmt, x...); break;
            case FN_vsnwprintf_s: rr = tramp_vw(_vsnwprintf_s_chk, wd, n, bos, wfmt, x...); break;
            case FN_fprintf_s: rr = fprintf_s(s, fmt, x...); break;
            case FN_vfprintf_s: rr = tramp_vf(vfprintf_s, s, fmt, x...); break;
            case FN_fwprintf_s: rr = fwprintf_s(s, wfmt, x...); break;
            case FN_vfwprintf_s: rr = tramp_vfw(vfwprintf_s, s, wfmt, x...); break;
            case FN_printf_s: rr = printf_s(fmt, x...); break;
            case FN_vprintf_s: rr = tramp_vp(vprintf_s, fmt, x...); break;
            case FN_wprintf_s: rr = wprintf_s(wfmt, x...); break;
            case FN_vwprintf_s: rr = tramp_vpw(vwprintf_s, wfmt, x...); break;
            }
            t.in_op = false;
            return rr;
        };
        ret = vstep(call, v, 0);
        r.raw = ret;
        r.raw_set = true;
        if (viastdout) stdout = save;
        if (s) {
            int e = errno;
            int ferr = ferror(s) ? 1 : 0, ori = fwide(s, 0);
            int fr = fclose(s);
            ret = ret * 32 + (fr ? 1 : 0) + 2 * ferr + 4 * (ori > 0 ? 1 : ori < 0 ? 2 : 0); // what the stream is left like
            errno = e;
        }
        break;
    }
    // ---------------- scan
    case FN_sscanf_s: LIB(ret = sscanf_s(CP(0), CP(1), P(2), P(3), P(4), P(5))); break;
    case FN_vsscanf_s: LIB(ret = tramp_vss(vsscanf_s, CP(0), CP(1), P(2), P(3), P(4), P(5))); break;
    case FN_swscanf_s: LIB(ret = swscanf_s(WP(0), WP(1), P(2), P(3), P(4), P(5))); break;
    case FN_vswscanf_s: LIB(ret = tramp_vsw(vswscanf_s, WP(0), WP(1), P(2), P(3), P(4), P(5))); break;
    case FN_fscanf_s: case FN_vfscanf_s: case FN_fwscanf_s: case FN_vfwscanf_s:
    case FN_scanf_s: case FN_vscanf_s: case FN_wscanf_s: case FN_vwscanf_s: case FN_gets_s: {
        FILE *s = A(0) >= 0 || g_fn[op.fn].uses_stdio ? open_rd(t) : nullptr;
        FILE *save = nullptr;
        if (g_fn[op.fn].uses_stdio) { save = stdin; stdin = s; }
        switch (op.fn) {
        case FN_fscanf_s: LIB(ret = fscanf_s(s, CP(1), P(2), P(3), P(4), P(5))); break;
        case FN_vfscanf_s: LIB(ret = tramp_vf(vfscanf_s, s, CP(1), P(2), P(3), P(4), P(5))); break;
        case FN_fwscanf_s: LIB(ret = fwscanf_s(s, WP(1), P(2), P(3), P(4), P(5))); break;
        case FN_vfwscanf_s: LIB(ret = tramp_vfw(vfwscanf_s, s, WP(1), P(2), P(3), P(4), P(5))); break;
        case FN_scanf_s: LIB(ret = scanf_s(CP(1), P(2), P(3), P(4), P(5))); break;
        case FN_vscanf_s: LIB(ret = tramp_vp(vscanf_s, CP(1), P(2), P(3), P(4), P(5))); break;
        case FN_wscanf_s: LIB(ret = wscanf_s(WP(1), P(2), P(3), P(4), P(5))); break;
        case FN_vwscanf_s: LIB(ret = tramp_vpw(vwscanf_s, WP(1), P(2), P(3), P(4), P(5))); break;
        case FN_gets_s: { char *p; LIB(p = _gets_s_chk(CP(2), N(3), B(4))); ret = POFF(p); break; }
        }
        if (save) stdin = save;
        if (s) { int e = errno; int ori = fwide(s, 0); ret = ret * 16 + (feof(s) ? 1 : 0) + (ferror(s) ? 2 : 0) + 4 * (ori > 0 ? 1 : ori < 0 ? 2 : 0); fclose(s); errno = e; }
        break;
    }
    // ---------------- tokenise
    case FN_strtok_s: { char *p; LIB(p = _strtok_s_chk(CP(0), (rsize_t *)P(1), CP(2), (char **)P(3), B(4))); ret = POFF(p); break; }
    case FN_wcstok_s: { wchar_t *p; LIB(p = _wcstok_s_chk(WP(0), (rsize_t *)P(1), WP(2), (wchar_t **)P(3), B(4))); ret = POFF(p); break; }
    // ---------------- time / error / env
    case FN_asctime_s: LIB(ret = _asctime_s_chk(CP(0), N(1), (const struct tm *)P(2), B(3))); break;
    case FN_ctime_s: LIB(ret = _ctime_s_chk(CP(0), N(1), (const time_t *)P(2), B(3))); break;
    case FN_gmtime_s: case FN_localtime_s: {
        struct tm *p;
        if (op.fn == FN_gmtime_s) LIB(p = gmtime_s((const time_t *)P(0), (struct tm *)P(1)));
        else LIB(p = localtime_s((const time_t *)P(0), (struct tm *)P(1)));
        ret = POFF(p);
        if (p && p->tm_zone) { // a pointer into libc: replace by its contents (addresses never enter a digest)
            ret = ret * 1000003 + (int64_t)(hash_bytes(p->tm_zone, strlen(p->tm_zone)) & 0xffffff);
            p->tm_zone = nullptr;
        }
        break;
    }
    case FN_strerror_s: LIB(ret = _strerror_s_chk(CP(0), N(1), (errno_t)A(2), B(3))); break;
    case FN_strerrorlen_s: LIB(ret = (int64_t)strerrorlen_s((errno_t)A(0))); break;
    case FN_getenv_s: LIB(ret = _getenv_s_chk((size_t *)P(0), CP(1), N(2), CP(3), B(4))); break;
    // ---------------- sort / search
    case FN_qsort_s:
        LIB(ret = _qsort_s_chk(P(0), N(1), N(2), A(3) ? nullptr : cmp_ctx, P(4), B(5)));
        break;
    case FN_bsearch_s: {
        void *p;
        LIB(p = _bsearch_s_chk(P(0), P(1), N(2), N(3), A(4) ? nullptr : cmp_ctx, P(5), B(6)));
        ret = POFF(p);
        break;
    }
    // ---------------- unicode
    case FN_towfc_s: LIB(ret = _towfc_s_chk(WP(0), N(1), (uint32_t)A(2), B(3))); break;
    case FN_iswfc: LIB(ret = iswfc((uint32_t)A(0))); break;
    case FN_wcsfc_s: LIB(ret = _wcsfc_s_chk(WP(0), N(1), WP(2), (rsize_t *)P(3), B(4))); break;
    case FN_wcsnorm_s: LIB(ret = _wcsnorm_s_chk(WP(0), N(1), WP(2), (wcsnorm_mode_t)A(3), (rsize_t *)P(4), B(5))); break;
    case FN_wcsnorm_decompose_s: LIB(ret = _wcsnorm_decompose_s_chk(WP(0), N(1), WP(2), (rsize_t *)P(4), A(3) != 0, B(5))); break;
    case FN_wcsnorm_reorder_s: LIB(ret = _wcsnorm_reorder_s_chk(WP(0), N(1), WP(2), N(3), B(5))); break;
    case FN_wcsnorm_compose_s: LIB(ret = _wcsnorm_compose_s_chk(WP(0), N(1), WP(2), (rsize_t *)P(4), A(3) != 0, B(5))); break;
    // ---------------- files
    case FN_fopen_s: {
        static const char *paths[] = {"/dev/null", "/nonexistent-verif/x", nullptr, "/dev/zero"};
        static const char *modes[] = {"r", "w", nullptr, "zz", "a"};
        FILE *f = (FILE *)(uintptr_t)0x1;
        LIB(ret = fopen_s(A(2) < 0 ? nullptr : &f, paths[A(0) & 3], modes[A(1) % 5]));
        bool opened = f && f != (FILE *)(uintptr_t)0x1;
        ret = ret * 4 + (opened ? 1 : 0) + (f == nullptr ? 2 : 0);
        if (opened) { int e = errno; ret = ret * 8 + use_stream(t, f); errno = e; }
        break;
    }
    case FN_freopen_s: {
        static const char *paths[] = {"/dev/null", "/nonexistent-verif/x", nullptr, "/dev/zero"};
        static const char *modes[] = {"r", "w", nullptr, "zz", "a"};
        FILE *old = A(3) < 0 ? nullptr : fopen("/dev/null", "r");
        FILE *f = (FILE *)(uintptr_t)0x1;
        LIB(ret = freopen_s(A(2) < 0 ? nullptr : &f, paths[A(0) & 3], modes[A(1) % 5], old));
        bool opened = f && f != (FILE *)(uintptr_t)0x1;
        ret = ret * 4 + (opened ? 1 : 0) + (f == nullptr ? 2 : 0);
        int e = errno;
        if (opened) ret = ret * 8 + use_stream(t, f);
        else if (old && A(2) < 0) fclose(old); // untouched: the constraint check came first
        errno = e;
        break;
    }
    case FN_tmpfile_s: {
        FILE *f = (FILE *)(uintptr_t)0x1;
        LIB(ret = tmpfile_s(A(0) < 0 ? nullptr : &f));
        bool opened = f && f != (FILE *)(uintptr_t)0x1;
        ret = ret * 4 + (opened ? 1 : 0) + (f == nullptr ? 2 : 0);
        if (opened) { int e = errno; ret = ret * 8 + use_stream(t, f); errno = e; }
        break;
    }
    default: break;
    }
    if (!r.raw_set) r.raw = ret;
    r.ret = ret;
}

std::string op_to_json(const Op &op) {
    std::string s = "{\"fn\":";
    s += jstr(op.fn >= 0 && op.fn < FN_COUNT ? g_fn[op.fn].name : "?");
    s += ",\"a\":[";
    char tmp[32];
    for (int i = 0; i < MAXA; i++) { snprintf(tmp, sizeof tmp, "%s%lld", i ? "," : "", (long long)op.a[i]); s += tmp; }
    s += "]";
    if (op.late) s += ",\"reuses_buffers_of_an_earlier_call\":1";
    if (!op.blobs.empty()) {
        s += ",\"blobs\":[";
        for (size_t i = 0; i < op.blobs.size(); i++) {
            snprintf(tmp, sizeof tmp, "%s[%u,", i ? "," : "", op.blobs[i].off);
            s += tmp;
            std::string b = op.blobs[i].bytes;
            bool trunc = b.size() > 48;
            if (trunc) b.resize(48);
            s += jstr(b) + (trunc ? ",\"...\"]" : "]");
        }
        s += "]";
    }
    if (!op.in.empty()) s += ",\"in\":" + jstr(op.in.size() > 48 ? op.in.substr(0, 48) : op.in);
    if (op.f.any()) {
        snprintf(tmp, sizeof tmp, ",\"fault\":{");
        s += tmp;
        bool first = true;
        auto add = [&](const char *k, int v) {
            char b[64];
            snprintf(b, sizeof b, "%s\"%s\":%d", first ? "" : ",", k, v);
            s += b;
            first = false;
        };
        if (op.f.alloc_k) { add("alloc_k", op.f.alloc_k); add("alloc_mode", op.f.alloc_mode); }
        if (op.f.alloc_k2) add("alloc_k2", op.f.alloc_k2);
        if (op.f.alloc_mask) add("alloc_fail_pattern_bits", (int)op.f.alloc_mask);
        if (op.f.wr_fail_at >= 0) { add("wr_fail_at", op.f.wr_fail_at); add("wr_errno", op.f.wr_errno); }
        if (op.f.wr_chunk) add("wr_chunk", op.f.wr_chunk);
        if (op.f.rd_chunk) add("rd_chunk", op.f.rd_chunk);
        if (op.f.rd_err_at >= 0) { add("rd_err_at", op.f.rd_err_at); add("rd_errno", op.f.rd_errno); }
        if (op.f.bufmode) add("bufmode", op.f.bufmode);
        s += "}";
    }
    return s + "}";
}
