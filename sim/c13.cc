// C13 -- constraint-handler registration is a per-thread override of a global.
// DESIGN.md section 5: histories of registrations / violating calls / thread creations executed by
// 1..6 real threads under a seeded interleaving, checked step by step against a reference model.
#include "ops.h"
#include "props.h"
#include <errno.h>
#include <wchar.h>
#include <time.h>
#include <algorithm>
#include <array>
extern "C" {
#include "safe_lib.h"
#include "safe_str_lib.h"
#include "safe_mem_lib.h"
}

enum { OP_SET_STR = 1001, OP_SET_MEM, OP_THRD_SET_STR, OP_THRD_SET_MEM, OP_VIOL_STR = 1010, OP_VIOL_MEM, OP_OK, OP_SPAWN = 1020, OP_JOIN };
// handler values of the model
enum { V_NONE = 0, V_DEF = 1, V_H1 = 2, V_H2 = 3, V_H3 = 4, V_IGN = 5, V_COUNT = 6 };
static const char *vname[] = {"none", "default", "H1", "H2", "H3", "ignore_handler_s"};
typedef uint8_t VSet;
static inline VSet bit(int v) { return (VSet)(1u << v); }

extern "C" {
static void sim_h1(const char *msg, void *, errno_t e) { note_handler(1, 0, msg, e); }
static void sim_h2(const char *msg, void *, errno_t e) { note_handler(2, 0, msg, e); }
static void sim_h3(const char *msg, void *, errno_t e) { note_handler(3, 0, msg, e); }
void __wrap_ignore_handler_s(const char *msg, void *ptr, int error);
}
// argument of a registration op -> pointer handed to the library
static constraint_handler_t handler_ptr(int a) {
    switch (a) {
    case 1: return sim_h1;
    case 2: return sim_h2;
    case 3: return sim_h3;
    case 4: return ignore_handler_s; // the library's real one: unobservable when it runs
    default: return nullptr;
    }
}
static int value_of_arg(int a) { return a == 0 ? V_DEF : a == 4 ? V_IGN : V_H1 + (a - 1); }
static int value_of_ptr(constraint_handler_t p) {
    if (!p) return V_NONE;
    if (p == (constraint_handler_t)__wrap_ignore_handler_s) return V_DEF;
    if (p == sim_h1) return V_H1;
    if (p == sim_h2) return V_H2;
    if (p == sim_h3) return V_H3;
    if (p == ignore_handler_s) return V_IGN;
    return -1;
}
static int value_of_hid(int hid) { return hid == 0 ? V_DEF : V_H1 + (hid - 1); }

// ------------------------------------------------------------------ the reference model
struct InFlight {
    bool active = false;
    int kind = 0;
    VSet gadm = 0;      // values the process-wide registration held at some instant since the call began
    int invocations = 0;
    int regs_before = 0;
};
struct Model {
    VSet G[2];
    std::vector<std::array<VSet, 2>> T;
    std::vector<std::vector<InFlight>> fl;      // per task: stack of calls whose violation is being dispatched
    std::vector<std::pair<int, int>> nested;     // per task: action the next invoked handler performs from inside (0 = none)
    uint64_t nested_actions = 0;
    std::vector<int> regs;      // per kind: process-wide registrations so far
    std::vector<std::array<int, 2>> tregs;
    bool tier2 = false;
    int reg_owner[2] = {-1, -1}; // task inside a process-wide registration call of that kind (tier 2: such calls are preemptible)
    VSet reg_pending[2] = {0, 0}; // the value that call is installing
    // first violation of the run
    bool bad = false;
    std::string cls, detail;
    int bad_task = -1, bad_op = -1;
    // measures
    uint64_t api_dispatches = 0, preemptible_regs = 0;
    uint64_t dispatches = 0, midcall_regs = 0, nontrivial_dispatch = 0, inherited_open = 0, collapsed_to_inherit = 0, collapsed_to_none = 0;
    uint64_t tls_reuse = 0, children_of_registered = 0, first_prev_null = 0, first_prev_default = 0;
    std::set<uint64_t> states;
    std::vector<uintptr_t> dead_ids;
};
static Model M;
// pre-flight: how many handler invocations each API call of the history raises when its thread runs alone with no
// registration made ([task][op index in the history]; -1 = not an API call / not measured)
static std::vector<std::vector<int>> g_pre_inv;

static void model_reset(size_t ntasks, bool tier2) {
    M = Model();
    M.G[0] = M.G[1] = bit(V_NONE);
    M.T.assign(ntasks, {bit(V_NONE), bit(V_NONE)});
    M.fl.assign(ntasks, {});
    M.nested.assign(ntasks, {0, 0});
    M.regs.assign(2, 0);
    M.tregs.assign(ntasks, {0, 0});
    M.tier2 = tier2;
}
static void violation(Task &t, const char *cls, const std::string &detail) {
    if (M.bad) return;
    M.bad = true;
    M.cls = cls;
    M.detail = detail;
    M.bad_task = t.id;
    M.bad_op = t.cur_op;
}
static std::string set_str(VSet s) {
    std::string o = "{";
    for (int v = 0; v < V_COUNT; v++)
        if (s & bit(v)) o += (o.size() > 1 ? "," : "") + std::string(vname[v]);
    return o + "}";
}
static void note_state() {
    Hasher h;
    h.u64(M.G[0]);
    h.u64(M.G[1]);
    std::vector<uint64_t> rows;
    for (size_t i = 0; i < M.T.size(); i++)
        if (g_sim.tasks[i]->state != T_NOTSTARTED && g_sim.tasks[i]->state != T_DONE) rows.push_back(((uint64_t)M.T[i][0] << 8) | M.T[i][1]);
    std::sort(rows.begin(), rows.end());
    for (auto r : rows) h.u64(r);
    M.states.insert(h.h);
}
// handlers that may legitimately run for a violation of kind k on task t
static VSet expected_handlers(int t, int k, VSet gadm) {
    VSet e = 0;
    for (int v = 0; v < V_COUNT; v++) {
        if (!(M.T[t][k] & bit(v))) continue;
        if (v != V_NONE) { e |= bit(v); continue; }
        for (int g = 0; g < V_COUNT; g++)
            if (gadm & bit(g)) e |= (g == V_NONE) ? bit(V_DEF) : bit(g);
    }
    return e;
}
// narrow the thread-local set to the values consistent with having observed handler value `obs`
static void collapse(int t, int k, VSet gadm, int obs) {
    VSet keep = 0;
    for (int v = 0; v < V_COUNT; v++) {
        if (!(M.T[t][k] & bit(v))) continue;
        if (v != V_NONE) { if (v == obs) keep |= bit(v); continue; }
        for (int g = 0; g < V_COUNT; g++)
            if ((gadm & bit(g)) && ((g == V_NONE ? V_DEF : g) == obs)) keep |= bit(V_NONE);
    }
    if (keep && keep != M.T[t][k]) {
        if (keep == bit(V_NONE)) M.collapsed_to_none++;
        else M.collapsed_to_inherit++;
        M.T[t][k] = keep;
    }
}
static void c13_handler_hook(int hid, int) {
    Task *t = t_self;
    if (!t) return;
    if (M.fl[t->id].empty()) return; // handler invoked outside a violating call (clean call): logged, not judged (C05)
    InFlight &f = M.fl[t->id].back();
    f.invocations++;
    int obs = value_of_hid(hid);
    VSet exp = expected_handlers(t->id, f.kind, f.gadm);
    if (!(exp & bit(obs))) {
        violation(*t, "wrong-handler",
                  std::string("a ") + (f.kind ? "mem" : "str") + " violation on task " + std::to_string(t->id) + " invoked " + vname[obs] +
                      "; admissible: " + set_str(exp) + " (thread-local " + set_str(M.T[t->id][f.kind]) + ", process-wide " + set_str(f.gadm) + ")");
        return;
    }
    collapse(t->id, f.kind, f.gadm, obs);
}

// ------------------------------------------------------------------ executing one op
// the headers diagnose constant bad arguments at compile time; hide the constants from the compiler
template <class T> static inline T opq(T v) { __asm__ volatile("" : "+r"(v)); return v; }
#define NUL(T) opq((T) nullptr)
#define NUM(n) opq((size_t)(n))
static void do_violation(Task &t, int kind, int which, bool preemptible) {
    uint8_t *b = t.arena.base + ARENA_SIZE - 6144; // above everything the generators allocate
    char *buf = (char *)b;
    char *src = (char *)b + 512;
    wchar_t *wbuf = (wchar_t *)(b + 1024);
    strcpy(src, "the quick brown fox");
    int diff = 0;
    struct tm tm;
    memset(&tm, 0, sizeof tm);
    tm.tm_mday = 1;
    rsize_t dm = 8;
    char *ptr = nullptr;
    if (preemptible) t.in_op = true;
    if (kind == 0) {
        switch (which % 10) {
        case 0: _strcpy_s_chk(NUL(char *), NUM(10), src, BOS_UNKNOWN); break;
        case 1: _strcpy_s_chk(buf, NUM(0), src, BOS_UNKNOWN); break;
        case 2: _strcpy_s_chk(buf, NUM(RSIZE_MAX_STR + 1), src, BOS_UNKNOWN); break;
        case 3: _strcpy_s_chk(buf, NUM(4), src, BOS_UNKNOWN); break;
        case 4: _strcat_s_chk(buf, NUM(8), NUL(const char *), BOS_UNKNOWN); break;
        case 5: _strncpy_s_chk(buf, NUM(8), src, NUM(100), BOS_UNKNOWN, BOS_UNKNOWN); break;
        case 6: _sprintf_s_chk(buf, NUM(8), BOS_UNKNOWN, NUL(const char *)); break;
        case 7: _wcscpy_s_chk(NUL(wchar_t *), NUM(8), L"x", BOS_UNKNOWN); break;
        case 8: _strtok_s_chk(NUL(char *), &dm, NUL(const char *), &ptr, BOS_UNKNOWN); break;
        default: _asctime_s_chk(buf, NUM(5), &tm, BOS_UNKNOWN); break;
        }
    } else {
        switch (which % 7) {
        case 0: _memcpy_s_chk(NUL(void *), NUM(10), src, NUM(5), BOS_UNKNOWN, BOS_UNKNOWN); break;
        case 1: _memcpy_s_chk(buf, NUM(0), src, NUM(5), BOS_UNKNOWN, BOS_UNKNOWN); break;
        case 2: _memmove_s_chk(buf, NUM(8), NUL(const void *), NUM(4), BOS_UNKNOWN, BOS_UNKNOWN); break;
        case 3: _memset_s_chk(buf, NUM(8), 0, NUM(100), BOS_UNKNOWN); break;
        case 4: _memcmp_s_chk(buf, NUM(8), NUL(const void *), NUM(4), &diff, BOS_UNKNOWN, BOS_UNKNOWN); break;
        case 5: _memzero_s_chk(NUL(void *), NUM(8), BOS_UNKNOWN); break;
        default: _memcpy_s_chk(buf, NUM(8), src, NUM(16), BOS_UNKNOWN, BOS_UNKNOWN); break;
        }
    }
    t.in_op = false;
    (void)wbuf;
}

static int api_kind(int fn);

// one process-wide or thread-local registration call, checked against the model
static int64_t do_registration(Task &t, int fn, int harg, bool preemptible) {
    int me = t.id;
    int k = (fn == OP_SET_MEM || fn == OP_THRD_SET_MEM) ? 1 : 0;
    bool thr = fn == OP_THRD_SET_STR || fn == OP_THRD_SET_MEM;
    constraint_handler_t h = handler_ptr(harg);
    constraint_handler_t prev;
    int nv = value_of_arg(harg);
    // two process-wide registrations of one kind never overlap, whoever makes the second one (a thread's own op or a
    // handler re-entering the library)
    if (!thr)
        while (M.reg_owner[k] >= 0 && M.reg_owner[k] != me) sim_switch_to(t, M.reg_owner[k]);
    if (!thr && preemptible) {
        // Tier 2: the registration call itself can be preempted, so that violations on other threads are dispatched
        // while it is half done; they may see the old or the new handler, nothing else. Two process-wide
        // registrations of one kind never overlap (racing registrations are a caller-side race the property does
        // not speak about): a second one waits for the first.
        while (M.reg_owner[k] >= 0 && M.reg_owner[k] != me) sim_switch_to(t, M.reg_owner[k]);
        M.reg_owner[k] = me;
        M.reg_pending[k] = bit(nv);
        for (auto &st : M.fl)
            for (auto &f : st)
                if (f.kind == k) { f.gadm |= bit(nv); M.midcall_regs++; }
        M.preemptible_regs++;
    }
    bool save = t.in_op;
    t.in_op = preemptible;
    if (!thr) prev = k ? set_mem_constraint_handler_s(h) : set_str_constraint_handler_s(h);
    else prev = k ? thrd_set_mem_constraint_handler_s(h) : thrd_set_str_constraint_handler_s(h);
    t.in_op = save;
    if (!thr && preemptible) { M.reg_owner[k] = -1; M.reg_pending[k] = 0; }
    int pv = value_of_ptr(prev);
    VSet &cur = thr ? M.T[me][k] : M.G[k];
    VSet adm = cur;
    if (cur & bit(V_NONE)) adm |= bit(V_DEF); // "never registered" may be reported as NULL or as the default handler
    if (pv < 0 || !(adm & bit(pv))) {
        violation(t, "wrong-previous",
                  std::string(thr ? "thrd_set_" : "set_") + (k ? "mem" : "str") + "_constraint_handler_s on task " + std::to_string(me) + " returned " +
                      (pv < 0 ? "an unknown pointer" : vname[pv]) + "; registered before: " + set_str(cur));
    } else {
        if (pv == V_NONE) M.first_prev_null++;
        if (pv == V_DEF && (cur & bit(V_NONE)) && !(cur & bit(V_DEF))) M.first_prev_default++;
    }
    cur = bit(nv);
    if (!thr) {
        M.regs[k]++;
        for (auto &st : M.fl)
            for (auto &f : st)
                if (f.kind == k) { f.gadm |= bit(nv); M.midcall_regs++; }
    } else M.tregs[me][k]++;
    note_state();
    return pv;
}

// one violating call of kind k; nested != 0: the first handler invoked for it performs that action from inside the handler
static int64_t do_dispatch_call(Task &t, int k, int which, bool preemptible, int nested, int nested_arg) {
    int me = t.id;
    InFlight f0;
    f0.active = true;
    f0.kind = k;
    f0.gadm = M.G[k] | M.reg_pending[k];
    f0.invocations = 0;
    f0.regs_before = M.regs[k] + M.tregs[me][k];
    M.fl[me].push_back(f0);
    size_t depth = M.fl[me].size() - 1;
    M.nested[me] = {nested, nested_arg};
    do_violation(t, k, which, preemptible);
    M.nested[me] = {0, 0};
    InFlight f = M.fl[me][depth];
    M.fl[me].resize(depth);
    M.dispatches++;
    if (f.regs_before >= 2) M.nontrivial_dispatch++;
    if (f.invocations == 0) {
        // nothing observable ran: only the library's real ignore_handler_s is invisible to the harness
        VSet exp = expected_handlers(me, k, f.gadm);
        if (!(exp & bit(V_IGN)))
            violation(t, "no-handler", std::string("a ") + (k ? "mem" : "str") + " violation on task " + std::to_string(me) +
                                           " invoked no observable handler; admissible: " + set_str(exp));
        else collapse(me, k, f.gadm, V_IGN);
    }
    return f.invocations;
}

// runs in the handler, on the library's stack, after the invocation was logged and judged: the nested action
static void c13_after_handler(int) {
    Task *t = t_self;
    if (!t) return;
    int act = M.nested[t->id].first, arg = M.nested[t->id].second;
    if (!act) return;
    M.nested[t->id] = {0, 0};
    M.nested_actions++;
    bool save = t->in_op;
    t->in_op = false; // the nested call is executed atomically
    switch (act) {
    case 1: do_registration(*t, OP_SET_STR, arg % 5, false); break;
    case 2: do_registration(*t, OP_SET_MEM, arg % 5, false); break;
    case 3: do_registration(*t, OP_THRD_SET_STR, arg % 5, false); break;
    case 4: do_registration(*t, OP_THRD_SET_MEM, arg % 5, false); break;
    case 5: do_dispatch_call(*t, 0, arg, false, 0, 0); break;
    default: do_dispatch_call(*t, 1, arg, false, 0, 0); break;
    }
    t->in_op = save;
}

static void c13_exec(Task &t, const Op &op, OpResult &r) {
    int me = t.id;
    if (t.cur_op == 0) {
        // first step of this thread: does it sit on a dead thread's stack / TLS block?
        for (uintptr_t d : M.dead_ids)
            if (d == t.self_id) { M.tls_reuse++; break; }
    }
    switch (op.fn) {
    case OP_SET_STR: case OP_SET_MEM: case OP_THRD_SET_STR: case OP_THRD_SET_MEM:
        r.ret = do_registration(t, op.fn, (int)op.a[0], M.tier2);
        break;
    case OP_VIOL_STR: case OP_VIOL_MEM:
        r.ret = do_dispatch_call(t, op.fn == OP_VIOL_MEM ? 1 : 0, (int)op.a[0], M.tier2, (int)op.a[1], (int)op.a[2]);
        break;
    case OP_OK: {
        char *buf = (char *)t.arena.base + ARENA_SIZE - 6144;
        if (op.a[0] & 1) r.ret = _strcpy_s_chk(buf, 32, "fine", BOS_UNKNOWN);
        else r.ret = _memcpy_s_chk(buf, 32, "0123456789", 8, BOS_UNKNOWN, BOS_UNKNOWN);
        break;
    }
    case OP_SPAWN: {
        int c = (int)op.a[0];
        if (c > me && c < (int)g_sim.tasks.size() && g_sim.tasks[c]->state == T_NOTSTARTED) {
            // what the child may start with: nothing, or (left open by the property) its creator's registration
            bool open = false;
            for (int k = 0; k < 2; k++) {
                M.T[c][k] = bit(V_NONE) | M.T[me][k];
                if (M.T[c][k] != bit(V_NONE)) open = true;
                M.tregs[c][k] = 0;
            }
            if (open) { M.children_of_registered++; M.inherited_open++; }
            task_spawn(t, c);
            note_state();
        }
        break;
    }
    case OP_JOIN: {
        int c = (int)op.a[0];
        if (c > me && c < (int)g_sim.tasks.size() && g_sim.tasks[c]->state != T_NOTSTARTED) {
            uintptr_t id = g_sim.tasks[c]->self_id;
            task_join(t, c);
            M.dead_ids.push_back(id);
            note_state();
        }
        break;
    }
    default:
        if (op.fn >= 0 && op.fn < FN_COUNT) {
            int k = api_kind(op.fn);
            InFlight f0;
            f0.active = true;
            f0.kind = k < 0 ? 0 : k;
            f0.gadm = M.G[f0.kind] | M.reg_pending[f0.kind];
            f0.invocations = 0;
            f0.regs_before = M.regs[f0.kind] + M.tregs[me][f0.kind];
            if (k >= 0) M.fl[me].push_back(f0);
            exec_api_op(t, op, r);
            InFlight f = f0;
            if (k >= 0) { f = M.fl[me].back(); M.fl[me].pop_back(); }
            int pre = (k >= 0 && me < (int)g_pre_inv.size() && t.cur_op < (int)g_pre_inv[me].size()) ? g_pre_inv[me][t.cur_op] : -1;
            if (f.invocations && pre >= 0 && f.invocations != pre && !(expected_handlers(me, k, f.gadm) & bit(V_IGN))) {
                // how often a call reports does not depend on who is registered: alone, with nothing registered, this
                // very call invokes the (default) handler `pre` times
                violation(t, "wrong-count", std::string("a ") + (k ? "mem" : "str") + " report of " + g_fn[op.fn].name + " on task " + std::to_string(me) + ": " +
                                                std::to_string(f.invocations) + " handler invocation(s) where the same call, run alone with nothing registered, makes " + std::to_string(pre));
            }
            if (f.invocations) {
                M.dispatches++;
                M.api_dispatches++;
                if (f.regs_before >= 2) M.nontrivial_dispatch++;
            } else if (k >= 0 && me < (int)g_pre_inv.size() && t.cur_op < (int)g_pre_inv[me].size() && g_pre_inv[me][t.cur_op] > 0) {
                // alone, with nothing registered, this very call reports through the dispatcher; here nothing
                // observable ran: only the library's real ignore_handler_s is invisible to the harness
                VSet exp = expected_handlers(me, k, f.gadm);
                if (!(exp & bit(V_IGN)))
                    violation(t, "no-handler", std::string("a ") + (k ? "mem" : "str") + " report of " + g_fn[op.fn].name + " on task " + std::to_string(me) +
                                                   " invoked no observable handler (alone and with nothing registered the call invokes the default handler); admissible: " + set_str(exp));
                else collapse(me, k, f.gadm, V_IGN);
            }
        }
        break;
    }
}

// ------------------------------------------------------------------ which kind of handler an API function reports through
// Only functions that report every violation through one and the same dispatcher on the unchanged tree AND whose
// name puts them on that side (str*/wcs*/printf/time/... -> string handler, mem*/wmem* -> memory handler) are
// listed; the others (memchr_s/memrchr_s use the string dispatcher, strcspn_s/bsearch_s are mixed, ...) are not
// used as violating calls in histories. Table produced with VERIF_CALIBRATE=1 (c13_calibrate below).
static int api_kind(int fn) {
    switch (fn) {
    case FN_memset_s: case FN_memset16_s: case FN_memset32_s: case FN_memcpy_s: case FN_memcpy16_s: case FN_memcpy32_s:
    case FN_memmove_s: case FN_memmove16_s: case FN_memmove32_s: case FN_memcmp_s: case FN_memcmp16_s: case FN_memcmp32_s:
    case FN_memzero_s: case FN_memzero16_s: case FN_memzero32_s: case FN_wmemcpy_s: case FN_wmemmove_s: case FN_wmemcmp_s:
        return 1;
    case FN_memchr_s: case FN_memrchr_s: case FN_memccpy_s: case FN_strcspn_s: case FN_bsearch_s: case FN_timingsafe_bcmp: case FN_timingsafe_memcmp:
        return -1;
    default: break;
    }
    switch (g_fn[fn].fam) {
    case FAM_INPLACE: case FAM_COPY: case FAM_NCOPY: case FAM_FILL: case FAM_CMP: case FAM_SEARCH: case FAM_CONV: case FAM_FMT: case FAM_WFMT:
    case FAM_TOK: case FAM_TIME: case FAM_UNI: case FAM_SORT: case FAM_FILE: case FAM_SFMT: case FAM_SCAN:
        return 0; // (stream and scan functions: on the task's own cookie streams only, never on stdin / stdout)
    default: return -1;
    }
}
static const int g_api_fams[] = {FAM_INPLACE, FAM_COPY, FAM_NCOPY, FAM_FILL, FAM_CMP, FAM_SEARCH, FAM_CONV, FAM_FMT, FAM_WFMT, FAM_TOK, FAM_TIME, FAM_UNI, FAM_SORT, FAM_FILE, FAM_SFMT, FAM_SCAN};

// ------------------------------------------------------------------ generation
static void gen_history(Rng &r, Plan &plan) {
    plan = Plan();
    plan.locale = 0;
    int n = 1 + r.below(6);
    plan.tasks.resize(n);
    int roots = (n >= 2 && r.chance(1, 3)) ? 2 : 1;
    for (int i = 0; i < n; i++) {
        TaskPlan &tp = plan.tasks[i];
        tp.arena_seed = r.next();
        tp.parent = i < roots ? -1 : (int)r.below(i);
        int len = 1 + r.below(12);
        for (int j = 0; j < len; j++) {
            Op op;
            int k = r.below(20);
            if (k < 3) { op.fn = OP_SET_STR; op.a[0] = r.below(5); }
            else if (k < 5) { op.fn = OP_SET_MEM; op.a[0] = r.below(5); }
            else if (k < 8) { op.fn = OP_THRD_SET_STR; op.a[0] = r.below(5); }
            else if (k < 10) { op.fn = OP_THRD_SET_MEM; op.a[0] = r.below(5); }
            else if (k < 15) { op.fn = OP_VIOL_STR; op.a[0] = r.below(10); }
            else if (k < 19) { op.fn = OP_VIOL_MEM; op.a[0] = r.below(7); }
            else { op.fn = OP_OK; op.a[0] = r.below(2); }
            if ((op.fn == OP_VIOL_STR || op.fn == OP_VIOL_MEM) && r.chance(1, 6)) {
                // the handler that gets invoked re-enters the library: registers (1-4) or trips another constraint (5-6)
                op.a[1] = 1 + r.below(6);
                op.a[2] = op.a[1] <= 4 ? r.below(5) : r.below(7);
            }
            tp.ops.push_back(op);
        }
    }
    // tier 3: in a third of the histories the violating calls are arbitrary API calls with a documented
    // violation (whole-API generators), so that every function's own error paths are dispatched
    std::vector<uint32_t> tops(n, 64);
    if (r.chance(1, 3)) {
        GenCfg g;
        g.faults = false;
        g.violations = true;
        g.force_violation = true;
        g.no_edges = true;
        for (int i = 0; i < n; i++) {
            TaskPlan &tp = plan.tasks[i];
            uint32_t &top = tops[i];
            std::vector<Op> out;
            for (Op &op : tp.ops) {
                if (op.fn != OP_VIOL_STR && op.fn != OP_VIOL_MEM) { out.push_back(op); continue; }
                TaskPlan tmp;
                bool ok = false;
                for (int tries = 0; tries < 4 && !ok; tries++) {
                    tmp.ops.clear();
                    uint32_t save = top;
                    ok = gen_op(r, g_api_fams[r.below(sizeof g_api_fams / sizeof *g_api_fams)], tmp, &top, g, false, 0) && !tmp.ops.empty();
                    if (ok)
                        for (Op &x : tmp.ops)
                            if (api_kind(x.fn) < 0) ok = false;
                    if (!ok) top = save;
                }
                if (ok) for (Op &x : tmp.ops) out.push_back(x);
                else out.push_back(op);
            }
            if (out.size() > 24) out.resize(24);
            tp.ops = out;
        }
    }
    // neutral calls: in a third of the histories every thread also makes a few ordinary, non-violating library calls
    // (whole API) between its registrations and violations. The rule says they change nothing: whatever a call does to
    // the registration state behind the caller's back shows in the dispatches and return values that follow.
    if (r.chance(1, 3)) {
        GenCfg g;
        g.faults = false;
        g.violations = false;
        g.no_edges = true;
        for (int i = 0; i < n; i++) {
            TaskPlan &tp = plan.tasks[i];
            uint32_t &top = tops[i];
            int cnt = 1 + r.below(3);
            for (int c = 0; c < cnt && tp.ops.size() < 28; c++) {
                TaskPlan tmp;
                uint32_t save = top;
                bool ok = gen_op(r, g_api_fams[r.below(sizeof g_api_fams / sizeof *g_api_fams)], tmp, &top, g, false, 0) && !tmp.ops.empty();
                if (ok)
                    for (Op &x : tmp.ops)
                        if (api_kind(x.fn) < 0) ok = false;
                if (!ok) { top = save; continue; }
                size_t pos = r.below((uint32_t)tp.ops.size() + 1);
                tp.ops.insert(tp.ops.begin() + pos, tmp.ops.begin(), tmp.ops.end());
            }
        }
    }
    for (int i = roots; i < n; i++) {
        TaskPlan &pp = plan.tasks[plan.tasks[i].parent];
        Op sp;
        sp.fn = OP_SPAWN;
        sp.a[0] = i;
        size_t pos = r.below((uint32_t)pp.ops.size() + 1);
        pp.ops.insert(pp.ops.begin() + pos, sp);
        if (r.chance(2, 3)) {
            Op jn;
            jn.fn = OP_JOIN;
            jn.a[0] = i;
            size_t jpos = pos + 1 + r.below((uint32_t)(pp.ops.size() - pos));
            pp.ops.insert(pp.ops.begin() + jpos, jn);
        }
    }
}

static const char *opname(int fn) {
    switch (fn) {
    case OP_SET_STR: return "set_str";
    case OP_SET_MEM: return "set_mem";
    case OP_THRD_SET_STR: return "thrd_set_str";
    case OP_THRD_SET_MEM: return "thrd_set_mem";
    case OP_VIOL_STR: return "violate_str";
    case OP_VIOL_MEM: return "violate_mem";
    case OP_OK: return "ok_call";
    case OP_SPAWN: return "spawn";
    case OP_JOIN: return "join";
    }
    if (fn >= 0 && fn < FN_COUNT) return g_fn[fn].name;
    return "?";
}
static std::string history_json(const Plan &p, const Schedule *s) {
    static const char *hn[] = {"NULL", "H1", "H2", "H3", "ignore_handler_s"};
    std::string o = "{\"threads\":[";
    for (size_t t = 0; t < p.tasks.size(); t++) {
        o += (t ? "," : "") + std::string("{\"created_by\":") + std::to_string(p.tasks[t].parent) + ",\"program\":[";
        for (size_t i = 0; i < p.tasks[t].ops.size(); i++) {
            const Op &op = p.tasks[t].ops[i];
            std::string a = op.fn >= OP_SET_STR && op.fn <= OP_THRD_SET_MEM ? hn[op.a[0] % 5] : std::to_string(op.a[0]);
            if ((op.fn == OP_VIOL_STR || op.fn == OP_VIOL_MEM) && op.a[1]) {
                static const char *na[] = {"", "set_str", "set_mem", "thrd_set_str", "thrd_set_mem", "violate_str", "violate_mem"};
                a += std::string(", handler does ") + na[op.a[1] % 7] + "(" + (op.a[1] <= 4 ? hn[op.a[2] % 5] : std::to_string(op.a[2])) + ")";
            }
            o += (i ? "," : "") + jstr(std::string(opname(op.fn)) + "(" + a + ")");
        }
        o += "]}";
    }
    o += "]";
    if (s) {
        o += ",\"switches\":[";
        for (size_t i = 0; i < s->sw.size() && i < 40; i++) {
            char tmp[96];
            snprintf(tmp, sizeof tmp, "%s[%d,%d,%u,%d]", i ? "," : "", s->sw[i].task, s->sw[i].op, s->sw[i].ev, s->sw[i].target);
            o += tmp;
        }
        o += "]";
    }
    return o + "}";
}

// ------------------------------------------------------------------ running a history
static PassCfg c13_cfg() {
    PassCfg c;
    c.mode = PASS_CONC;
    c.exec = c13_exec;
    return c;
}
struct RunOut {
    bool bad = false;
    std::string cls, detail;
    uint64_t loghash = 0;
    Schedule rec;
};
// pre-flight: the API calls of a history, each thread's alone and with no registration made. A crash here is a
// defect of that function on that input (some other property's business), not of the dispatch rule. What is kept is
// the number of handler invocations each call raises (g_pre_inv): a call that reports through the dispatcher alone
// must not stay silent in the history unless the library's own (invisible) ignore_handler_s is an admissible handler.
static void c13_preflight(const Plan &plan) {
    Plan pre;
    pre.locale = plan.locale;
    bool any = false;
    g_pre_inv.assign(plan.tasks.size(), {});
    for (size_t t = 0; t < plan.tasks.size(); t++) g_pre_inv[t].assign(plan.tasks[t].ops.size(), -1);
    for (auto &tp : plan.tasks) {
        TaskPlan q;
        q.arena_seed = tp.arena_seed;
        for (auto &op : tp.ops)
            if (op.fn < FN_COUNT) { q.ops.push_back(op); any = true; }
        pre.tasks.push_back(q);
    }
    if (!any) return;
    g_handler_hook = nullptr;
    g_handler_after = nullptr;
    for (size_t t = 0; t < pre.tasks.size(); t++) {
        if (pre.tasks[t].ops.empty()) continue;
        Schedule empty;
        empty.start = (int)t;
        ReplayStrategy rs0(empty, (int)pre.tasks.size());
        PassResult pr0;
        run_pass(pre, api_cfg(PASS_SOLO, (int)t, false), rs0, pr0);
        size_t q = 0;
        for (size_t o = 0; o < plan.tasks[t].ops.size(); o++)
            if (plan.tasks[t].ops[o].fn < FN_COUNT) {
                if (q < pr0.res[t].size() && pr0.res[t][q].done) g_pre_inv[t][o] = (int)pr0.res[t][q].hcalls.size();
                q++;
            }
    }
}

static void run_history(const Plan &plan, Strategy &st, bool tier2, RunOut &out) {
    PassCfg cfg = c13_cfg();
    size_t n = plan.tasks.size();
    cfg.before_tasks = [n, tier2]() { model_reset(n, tier2); };
    g_handler_hook = c13_handler_hook;
    g_handler_after = c13_after_handler;
    PassResult pr;
    run_pass(plan, cfg, st, pr);
    out.bad = M.bad;
    out.cls = M.cls;
    out.detail = M.detail;
    out.loghash = pr.loghash;
    out.rec.start = pr.start;
    out.rec.sw = pr.recorded;
}
static bool fails_same(const Plan &plan, const Schedule &s, bool tier2, const std::string &cls, RunOut *o = nullptr) {
    if (plan.tasks.empty()) return false;
    c13_preflight(plan);
    ReplayStrategy st(s, (int)plan.tasks.size());
    RunOut ro;
    run_history(plan, st, tier2, ro);
    if (o) *o = ro;
    return ro.bad && ro.cls == cls;
}
// remove task t together with the spawn/join ops that name it; renumber references
static void c13_drop_task(Plan &p, Schedule &s, int t) {
    for (size_t i = 0; i < p.tasks.size(); i++) {
        if ((int)i == t) continue;
        for (int o = (int)p.tasks[i].ops.size() - 1; o >= 0; o--) {
            Op &op = p.tasks[i].ops[o];
            if ((op.fn == OP_SPAWN || op.fn == OP_JOIN) && op.a[0] == t) drop_op(p, s, (int)i, o);
        }
    }
    drop_task(p, s, t);
    for (auto &tp : p.tasks) {
        if (tp.parent == t) tp.parent = -1;
        else if (tp.parent > t) tp.parent--;
        for (auto &op : tp.ops)
            if ((op.fn == OP_SPAWN || op.fn == OP_JOIN) && op.a[0] > t) op.a[0]--;
    }
}
static bool has_children(const Plan &p, int t) {
    for (auto &tp : p.tasks)
        if (tp.parent == t) return true;
    return false;
}
static int c13_minimise(Plan &plan, Schedule &sched, bool tier2, const std::string &cls, int budget) {
    int tries = 0;
    for (int t = (int)plan.tasks.size() - 1; t >= 1; t--) {
        if (has_children(plan, t)) continue;
        Plan p = plan;
        Schedule s = sched;
        c13_drop_task(p, s, t);
        if (++tries > budget) return tries;
        if (fails_same(p, s, tier2, cls)) { plan = p; sched = s; }
    }
    bool progress = true;
    while (progress && tries < budget) {
        progress = false;
        for (int t = 0; t < (int)plan.tasks.size(); t++)
            for (int o = (int)plan.tasks[t].ops.size() - 1; o >= 0; o--) {
                const Op &op = plan.tasks[t].ops[o];
                if (op.fn == OP_SPAWN) continue; // a spawn goes away with its child
                Plan p = plan;
                Schedule s = sched;
                drop_op(p, s, t, o);
                if (++tries > budget) return tries;
                if (fails_same(p, s, tier2, cls)) { plan = p; sched = s; progress = true; }
            }
        for (int t = (int)plan.tasks.size() - 1; t >= 1; t--) {
            if (has_children(plan, t)) continue;
            Plan p = plan;
            Schedule s = sched;
            c13_drop_task(p, s, t);
            if (++tries > budget) return tries;
            if (fails_same(p, s, tier2, cls)) { plan = p; sched = s; progress = true; }
        }
    }
    for (size_t chunk = sched.sw.size() / 2; chunk >= 1 && tries < budget; chunk /= 2) {
        for (size_t i = 0; i + chunk <= sched.sw.size() && tries < budget;) {
            Schedule s = sched;
            s.sw.erase(s.sw.begin() + i, s.sw.begin() + i + chunk);
            tries++;
            if (fails_same(plan, s, tier2, cls)) sched = s;
            else i += chunk;
        }
        if (chunk == 1) break;
    }
    // with fewer switches more ops may have become removable
    bool again = true;
    while (again && tries < budget) {
        again = false;
        for (int t = 0; t < (int)plan.tasks.size(); t++)
            for (int o = (int)plan.tasks[t].ops.size() - 1; o >= 0; o--) {
                if (plan.tasks[t].ops[o].fn == OP_SPAWN) continue;
                Plan p = plan;
                Schedule s = sched;
                drop_op(p, s, t, o);
                if (++tries > budget) return tries;
                if (fails_same(p, s, tier2, cls)) { plan = p; sched = s; again = true; }
            }
        for (int t = (int)plan.tasks.size() - 1; t >= 1; t--) {
            if (has_children(plan, t)) continue;
            Plan p = plan;
            Schedule s = sched;
            c13_drop_task(p, s, t);
            if (++tries > budget) return tries;
            if (fails_same(p, s, tier2, cls)) { plan = p; sched = s; again = true; }
        }
    }
    return tries;
}

// ------------------------------------------------------------------ batch
struct C13Stats {
    uint64_t histories = 0, ops = 0, events = 0, switches = 0, inner_switches = 0, threads = 0;
    uint64_t tier1 = 0, tier2 = 0;
    uint64_t opk[9] = {0};
    uint64_t api_dispatches = 0, api_ops = 0, nested_actions = 0, preemptible_regs = 0;
    uint64_t dispatches = 0, midcall_regs = 0, nontrivial = 0, tls_reuse = 0, children_of_registered = 0, collapsed_inherit = 0, collapsed_none = 0;
    uint64_t first_prev_null = 0, first_prev_default = 0, det_checked = 0, nondeterministic = 0;
    std::set<uint64_t> fingerprints, states;
    std::map<std::string, uint64_t> viol_count;
};
static int opidx(int fn) {
    switch (fn) {
    case OP_SET_STR: return 0; case OP_SET_MEM: return 1; case OP_THRD_SET_STR: return 2; case OP_THRD_SET_MEM: return 3;
    case OP_VIOL_STR: return 4; case OP_VIOL_MEM: return 5; case OP_OK: return 6; case OP_SPAWN: return 7; default: return 8;
    }
}
static void flush_stats(C13Stats &st, const Args &a) {
    std::string s = "{";
    auto add = [&](const char *k, uint64_t v) { s += (s.size() > 1 ? "," : "") + std::string("\"") + k + "\":" + std::to_string(v); };
    add("histories", st.histories); add("ops", st.ops); add("events", st.events); add("switches", st.switches); add("inner_switches", st.inner_switches);
    add("threads", st.threads); add("tier1", st.tier1); add("tier2", st.tier2); add("dispatches", st.dispatches); add("midcall_regs", st.midcall_regs);
    add("nontrivial", st.nontrivial); add("tls_reuse", st.tls_reuse); add("children_of_registered", st.children_of_registered);
    add("collapsed_inherit", st.collapsed_inherit); add("collapsed_none", st.collapsed_none); add("first_prev_null", st.first_prev_null);
    add("first_prev_default", st.first_prev_default); add("api_dispatches", st.api_dispatches); add("api_ops", st.api_ops); add("nested_actions", st.nested_actions); add("preemptible_regs", st.preemptible_regs); add("det_checked", st.det_checked); add("nondeterministic", st.nondeterministic);
    static const char *names[] = {"set_str", "set_mem", "thrd_set_str", "thrd_set_mem", "violate_str", "violate_mem", "ok_call", "spawn", "join"};
    s += ",\"op_kinds\":{";
    for (int i = 0; i < 9; i++) s += (i ? "," : "") + jstr(names[i]) + ":" + std::to_string(st.opk[i]);
    s += "}}";
    printf("STAT %s\n", s.c_str());
    if (!a.fpfile.empty()) {
        FILE *f = fopen(a.fpfile.c_str(), "ab");
        if (f) {
            uint64_t tag1 = 1, tag2 = 2;
            for (uint64_t h : st.fingerprints) { fwrite(&tag1, 8, 1, f); fwrite(&h, 8, 1, f); }
            for (uint64_t h : st.states) { fwrite(&tag2, 8, 1, f); fwrite(&h, 8, 1, f); }
            fclose(f);
        }
    }
    std::map<std::string, uint64_t> keep = st.viol_count;
    st = C13Stats();
    st.viol_count = keep;
    fflush(stdout);
}

static const Plan *g_cur_plan = nullptr;
static uint64_t g_cur_seed = 0, g_cur_run = 0;
static bool g_cur_tier2 = false;
static void c13_crash_hook(int sig) {
    if (!g_cur_plan) return;
    Schedule s;
    s.start = 0;
    s.sw = g_sim.recorded;
    std::string extra = "tier2 " + std::to_string(g_cur_tier2 ? 1 : 0) + "\nsignal " + std::to_string(sig) + "\n";
    std::string path = write_replay("C13", "crash", "crash:history", g_cur_seed, g_cur_run, *g_cur_plan, s, extra);
    printf("CRASH {\"run\":%llu,\"phase\":\"history\",\"signal\":%d,\"key\":\"crash:history\",\"replay\":%s}\n", (unsigned long long)g_cur_run, sig, jstr(path).c_str());
    fflush(stdout);
}

int c13_batch(const Args &a) {
    C13Stats st;
    g_crash_hook = c13_crash_hook;
    g_outdir = a.outdir;
    int samples_left = a.worker == 0 && a.from == 0 ? 3 : 0;
    int since_flush = 0;
    for (uint64_t i = a.from; i < a.to; i += a.stride) {
        uint64_t rs = mix64(a.seed, i);
        Rng cr(mix64(rs, 1)), pr_(mix64(rs, 2)), sr(mix64(rs, 3));
        Plan plan;
        gen_history(pr_, plan);
        bool tier2 = a.tier2 && cr.chance(1, 2);
        g_cur_plan = &plan;
        g_cur_seed = a.seed;
        g_cur_run = i;
        g_cur_tier2 = tier2;
        // pre-flight (see c13_preflight); a death in it is ignored by the driver like a solo crash of C12
        printf("BEGIN %llu preflight\n", (unsigned long long)i);
        g_cur_plan = nullptr;
        c13_preflight(plan);
        g_cur_plan = &plan;
        printf("BEGIN %llu history\n", (unsigned long long)i);
        Strategy *strat;
        uint64_t est = 2000;
        if (!tier2) strat = new RandomStrategy(sr.next(), 0, (int)plan.tasks.size(), est, 0, 0);
        else if (cr.chance(2, 3)) { static const uint32_t ps[] = {4, 16, 64, 256}; strat = new RandomStrategy(sr.next(), 1, (int)plan.tasks.size(), est, ps[cr.below(4)], 0); }
        else strat = new RandomStrategy(sr.next(), 2, (int)plan.tasks.size(), est, 0, 2 + cr.below(4));
        RunOut ro;
        run_history(plan, *strat, tier2, ro);
        delete strat;
        st.histories++;
        (tier2 ? st.tier2 : st.tier1)++;
        st.events += g_sim.events;
        st.switches += ro.rec.sw.size();
        for (auto &w : ro.rec.sw)
            if (w.ev > 0 && w.ev != 0xffffffffu) st.inner_switches++;
        for (auto &tp : plan.tasks)
            for (auto &op : tp.ops) { st.ops++; if (op.fn < FN_COUNT) st.api_ops++; else st.opk[opidx(op.fn)]++; }
        for (Task *t : g_sim.tasks)
            if (t->state == T_DONE) st.threads++;
        st.dispatches += M.dispatches;
        st.api_dispatches += M.api_dispatches;
        st.nested_actions += M.nested_actions;
        st.preemptible_regs += M.preemptible_regs;
        st.midcall_regs += M.midcall_regs;
        st.tls_reuse += M.tls_reuse;
        st.children_of_registered += M.children_of_registered;
        st.collapsed_inherit += M.collapsed_to_inherit;
        st.collapsed_none += M.collapsed_to_none;
        st.first_prev_null += M.first_prev_null;
        st.first_prev_default += M.first_prev_default;
        for (uint64_t h : M.states) st.states.insert(h);
        if (M.nontrivial_dispatch) {
            st.nontrivial++;
            Hasher fp;
            std::string txt = plan_to_text(plan);
            fp.bytes(txt.data(), txt.size());
            for (auto &w : ro.rec.sw) { fp.u64(((uint64_t)w.task << 48) | ((uint64_t)w.op << 32) | w.ev); fp.u64((uint64_t)w.target); }
            st.fingerprints.insert(fp.h);
        }
        printf("RUNHASH %llu %016llx\n", (unsigned long long)i, (unsigned long long)ro.loghash);
        bool bad = ro.bad;
        std::string cls = ro.cls, detail = ro.detail;
        // determinism gate (sampled, and for every violation): the recorded schedule replays to the same event log
        if (bad || i % 64 == 0) {
            RunOut r2;
            bool again = fails_same(plan, ro.rec, tier2, cls, &r2);
            st.det_checked++;
            if (r2.loghash != ro.loghash || (bad && !again)) {
                st.nondeterministic++;
                printf("NONDET {\"run\":%llu}\n", (unsigned long long)i);
                bad = false;
            }
        }
        if (bad) {
            std::string key = cls;
            uint64_t &cnt = st.viol_count[key];
            if (cnt++ < 3) {
                Plan mp = plan;
                Schedule ms = ro.rec;
                int tries = c13_minimise(mp, ms, tier2, cls, a.min_budget);
                RunOut r3, r4;
                bool ok3 = fails_same(mp, ms, tier2, cls, &r3), ok4 = fails_same(mp, ms, tier2, cls, &r4);
                if (ok3 && ok4 && r3.loghash == r4.loghash) {
                    std::string extra = "tier2 " + std::to_string(tier2 ? 1 : 0) + "\nminimise_tries " + std::to_string(tries) + "\ndetail " + r3.detail + "\n";
                    std::string path = write_replay("C13", cls, key, a.seed, i, mp, ms, extra);
                    size_t nops = 0;
                    for (auto &tp : mp.tasks) nops += tp.ops.size();
                    printf("VIOL {\"property\":\"C13\",\"class\":%s,\"key\":%s,\"replay\":%s,\"run\":%llu,\"detail\":%s}\n", jstr(cls).c_str(), jstr(key).c_str(),
                           jstr(path).c_str(), (unsigned long long)i,
                           jstr(r3.detail + " [" + std::to_string(mp.tasks.size()) + " threads, " + std::to_string(nops) + " ops, " + std::to_string(ms.sw.size()) + " switches after minimisation]").c_str());
                    printf("SAMPLE %s\n", history_json(mp, &ms).c_str());
                    fflush(stdout);
                } else {
                    printf("UNSTABLE {\"run\":%llu,\"key\":%s}\n", (unsigned long long)i, jstr(key).c_str());
                    cnt--;
                }
            }
        }
        if (samples_left > 0) {
            samples_left--;
            printf("SAMPLE %s\n", history_json(plan, &ro.rec).c_str());
        }
        if (++since_flush >= 512) { since_flush = 0; flush_stats(st, a); }
    }
    g_cur_plan = nullptr;
    flush_stats(st, a);
    return 0;
}

int c13_replay(const std::string &path) {
    FILE *f = fopen(path.c_str(), "r");
    if (!f) { perror(path.c_str()); return 2; }
    std::string txt;
    char buf[65536];
    size_t n;
    while ((n = fread(buf, 1, sizeof buf, f)) > 0) txt.append(buf, n);
    fclose(f);
    std::map<std::string, std::string> meta;
    Plan plan;
    Schedule sched;
    if (!parse_replay(txt, meta, plan, sched)) { fprintf(stderr, "cannot parse %s\n", path.c_str()); return 2; }
    bool tier2 = atoi(meta["tier2"].c_str()) != 0;
    std::string cls = meta["class"];
    RunOut r1, r2;
    bool a1 = fails_same(plan, sched, tier2, cls, &r1);
    bool a2 = fails_same(plan, sched, tier2, cls, &r2);
    printf("history: %s\n", history_json(plan, &sched).c_str());
    if (cls == "crash") { printf("NOT-REPRODUCED property=C13 class=crash (no crash)\n"); return 0; }
    if (a1 && a2 && r1.loghash == r2.loghash) {
        printf("REPRODUCED property=C13 class=%s loghash=%016llx\n  %s\n", cls.c_str(), (unsigned long long)r1.loghash, r1.detail.c_str());
        return 1;
    }
    printf("NOT-REPRODUCED property=C13 class=%s (now: %s)\n", cls.c_str(), r1.bad ? r1.cls.c_str() : "ok");
    return 0;
}
