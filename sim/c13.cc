#include "props.h"
int c13_batch(const Args &) { return 2; }
int c13_replay(const std::string &) { return 2; }
