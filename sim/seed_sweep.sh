#!/bin/bash
# seed_sweep.sh <first> <last> [props...] -- false-alarm control: run the quick checks under many VERIF_SEEDs
# (from the directory that contains sim/); keeps the replay files of any seed that raises an alarm.
first=$1; last=$2; shift 2; props=${@:-C12 C13 C20}
for s in $(seq $first $last); do
  for p in $props; do
    VERIF_SEED=$s sim/check $p > sweep_${p}_$s.log 2>&1; rc=$?
    echo "seed=$s $p rc=$rc $(tail -1 sweep_${p}_$s.log)"
    if [ $rc -ne 0 ]; then mkdir -p sweep_keep/${p}_$s; cp -r out/replays/. sweep_keep/${p}_$s/ 2>/dev/null; grep -E "^VIOLATION|^  key=|^check:" sweep_${p}_$s.log | cut -c1-300; fi
  done
done
