"""Evidence for C20 from the merged worker statistics."""


def evidence(c):
    st = c['stats']
    sites = st.get('sites', {})
    static = c['static_sites']
    reached = sorted(sites.keys())
    gaps = []
    for s in static:
        v = sites.get(s)
        if not v or v[0] == 0:
            gaps.append('allocation site %s never reached' % s)
        elif v[1] == 0:
            gaps.append('allocation site %s reached but never failed at' % s)
    extra_sites = [s for s in reached if s not in static]
    fn = st.get('fn', {})
    samples = list(c['batch'].samples[:4])
    for key, kf, v in c['known_seen']:
        samples.append(dict(known_finding=key, replay=v.get('replay')))
    for key, v in c['reported']:
        samples.append(dict(violation=key, replay=v.get('replay'), detail=v.get('detail')))
    if not samples:
        samples.append(dict(note='no allocating op sampled by worker 0 in this run'))
    crashes = [x for x in c['batch'].crashes]
    execs = st.get('dry', 0) + st.get('faulted', 0)
    coverage = dict(
        evaluations=int(execs),
        distinct_nontrivial=len(c['fps']),
        rule=('one generated op = one library call with literal arguments (60% from site-directed generators for the printf engine\'s %L?/%a/%ls paths, '
              'the wide-printf no-space probe, normalisation scratch / combining-sequence growth and the case-folding compares; 20% from the families that '
              'can allocate; 20% from the whole API so that new allocation sites are found). Each op is run fault-free (request count n, reference result, '
              'leak check) and then re-executed from identical memory with: everything from the k-th request on failing, for every k <= n; the k-th request '
              'alone failing, for every k <= n; and, adaptively, every such pattern extended by one more failing request among those the faulted execution '
              'actually made (retries, fallbacks, clean-up that allocates), up to 3 failures and 48 patterns per op. evaluations = executions (fault-free + '
              'faulted). distinct_nontrivial = distinct (op, failure pattern) cases, by hash of the explicit case text, in which an injected failure was '
              'actually reached; union over workers. The failure-position dimension is enumerated, the input dimension is seeded search'),
        samples=samples,
        ops_generated=st.get('ops', 0),
        ops_that_allocate=st.get('alloc_ops', 0),
        fault_free_executions=st.get('dry', 0),
        faulted_executions=st.get('faulted', 0),
        faulted_executions_where_failure_was_hit=st.get('hit', 0),
        executions_with_two_or_more_failed_requests=st.get('pairs', 0),
        outcomes=dict(failure_reported_and_dest_cleared=st.get('out_fail_clean', 0), success_identical_to_fault_free=st.get('out_success_same', 0)),
        leak_checks=st.get('leak_checks', 0) + st.get('faulted', 0),
        heap_guard='every block the library allocates carries a 64-byte red zone and is poisoned and quarantined on release until the call returns; checked at free / realloc / return in every execution',
        calls_retaining_memory_until_thread_exit=st.get('retained_ops', 0),
        fault_free_executions_with_heap_misuse_not_judged_here=st.get('dry_heap_misuse', 0),
        requests_per_call_histogram=st.get('nalloc_hist', {}),
        fault_kinds_fired=dict(alloc_fail=st.get('hit', 0), stream_write_error_or_short=st.get('wr_faults', 0)),
        allocation_sites_static=static,
        allocation_sites=dict((k, dict(reached=v[0], failed_at=v[1])) for k, v in sorted(sites.items())),
        allocation_sites_outside_static_set=extra_sites,
        per_function=dict((k, dict(ops=v[0], allocating=v[1], faulted_executions=v[2])) for k, v in sorted(fn.items()) if v[1]),
        functions_exercised=len(fn),
        scheduler_steps=st.get('events', 0),
        crashes=len(crashes),
        determinism_gate=dict(runs_compared_across_processes=c['det']['compared'], mismatches=c['det']['mismatches']),
        worker_restarts=c['batch'].restarts,
        runs_per_hour=int(execs / max(c['t_main'], 1e-9) * 3600),
        simulated_time='none: no clock in the library',
        components=dict(real=['all of safeclib built from /repo working tree', 'glibc (its own internal allocations are never failed)'],
                        simulated=['verdict of every malloc/calloc/realloc made by the library (link-time wrap)', 'FILE* byte sinks (fopencookie) with write errors', 'constraint handler (logging)']),
        known_findings=[k for k, _, _ in c['known_seen']],
        gaps=gaps,
        exhaustive=False,
    )
    if c.get('asan_stats'):
        a = c['asan_stats']
        coverage['asan_variant'] = dict(fault_free_executions=a.get('dry', 0), faulted_executions=a.get('faulted', 0), crashes=len(c['asan'].crashes))
    return dict(
        property_id='C20', tier=c['tier'], seed=c['seed'], level=c['level'], coverage=coverage,
        assumptions=['only allocation requests made by the library itself are failed (C20: "any dynamic allocation the library performs"); glibc-internal allocations stay real',
                     'the instrumented clang -O1 build has the same allocation sites and error paths as the shipped build (same sources)',
                     'a block is leaked if nobody has released it when the call has returned and the calling thread has ended and run its exit handlers (memory the library keeps per thread and releases at thread exit is not a leak)',
                     '"dest cleared" is judged as: first element zero and no element differing from both zero and its pre-call value',
                     'a failure caused by a failed allocation must reach the constraint handler at least once ("as for any other violation"; holds for every such failure of the unchanged tree)'],
        wall_s=round(c['wall'], 2), violations=len(c['reported']))
