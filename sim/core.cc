// Simulator core: baton scheduler over real pthreads, coverage-callback yield
// points, allocator/stream/handler seams, image of the library's static storage.
// DESIGN.md section 3.
#include "sim.h"
#include <elf.h>
#include <link.h>
#include <errno.h>
#include <fcntl.h>
#include <locale.h>
#include <pwd.h>
#include <grp.h>
#include <dirent.h>
#include <search.h>
#include <math.h>
#include <time.h>
#include <set>
#include <signal.h>
#include <unistd.h>
#include <sys/mman.h>
#include <sys/stat.h>
#include <algorithm>
#include <fenv.h>
#include <stdarg.h>
#include <wchar.h>
#include <arpa/inet.h>

Sim g_sim;
LibImage g_lib;
thread_local Task *t_self = nullptr;
void (*g_crash_hook)(int sig) = nullptr;
#ifdef VARIANT_asan
const char *g_variant = "asan";
#define NOSAN __attribute__((no_sanitize("address", "undefined")))
#else
const char *g_variant = "plain";
#define NOSAN
#endif

// ------------------------------------------------------------------ misc helpers
void Hasher::bytes(const void *p, size_t n) { h = hash_bytes(p, n, h); }

NOSAN uint64_t hash_bytes(const void *p, size_t n, uint64_t seed) {
    const uint8_t *b = (const uint8_t *)p;
    uint64_t h0 = seed ^ 0x9e3779b97f4a7c15ULL, h1 = seed + 0xc2b2ae3d27d4eb4fULL,
             h2 = ~seed, h3 = seed * 0x165667b19e3779f9ULL + 1;
    size_t i = 0;
    for (; i + 32 <= n; i += 32) {
        uint64_t w0, w1, w2, w3;
        __builtin_memcpy(&w0, b + i, 8);
        __builtin_memcpy(&w1, b + i + 8, 8);
        __builtin_memcpy(&w2, b + i + 16, 8);
        __builtin_memcpy(&w3, b + i + 24, 8);
        h0 = (h0 ^ w0) * 0x9fb21c651e98df25ULL; h0 = (h0 << 29) | (h0 >> 35);
        h1 = (h1 ^ w1) * 0xc2b2ae3d27d4eb4fULL; h1 = (h1 << 31) | (h1 >> 33);
        h2 = (h2 ^ w2) * 0x165667b19e3779f9ULL; h2 = (h2 << 27) | (h2 >> 37);
        h3 = (h3 ^ w3) * 0x27d4eb2f165667c5ULL; h3 = (h3 << 33) | (h3 >> 31);
    }
    uint64_t h = mix64(mix64(h0, h1), mix64(h2, h3));
    for (; i < n; i++) h = (h ^ b[i]) * 0x100000001b3ULL;
    return mix64(h, n);
}

std::string jstr(const std::string &s) {
    std::string o = "\"";
    char tmp[8];
    for (unsigned char c : s) {
        if (c == '"' || c == '\\') { o += '\\'; o += (char)c; }
        else if (c < 0x20 || c >= 0x7f) { snprintf(tmp, sizeof tmp, "\\u%04x", c); o += tmp; }
        else o += (char)c;
    }
    return o + "\"";
}
std::string hexs(const std::string &s) {
    static const char *d = "0123456789abcdef";
    std::string o;
    for (unsigned char c : s) { o += d[c >> 4]; o += d[c & 15]; }
    return o;
}
std::string unhex(const std::string &s) {
    std::string o;
    auto v = [](char c) { return c <= '9' ? c - '0' : (c | 32) - 'a' + 10; };
    for (size_t i = 0; i + 1 < s.size(); i += 2) o += (char)(v(s[i]) * 16 + v(s[i + 1]));
    return o;
}

// ------------------------------------------------------------------ library image
static int phdr_cb(struct dl_phdr_info *info, size_t, void *) {
    if (info->dlpi_name && strstr(info->dlpi_name, "libsafec_sim.so")) {
        g_lib.path = info->dlpi_name;
        g_lib.base = info->dlpi_addr;
        return 1;
    }
    return 0;
}

NOSAN static void raw_copy(void *d, const void *s, size_t n) {
    volatile uint8_t *dd = (volatile uint8_t *)d;
    const volatile uint8_t *ss = (const volatile uint8_t *)s;
    size_t i = 0;
    for (; i + 8 <= n; i += 8) *(volatile uint64_t *)(dd + i) = *(const volatile uint64_t *)(ss + i);
    for (; i < n; i++) dd[i] = ss[i];
}
NOSAN static bool raw_equal(const void *a, const void *b, size_t n) {
    const volatile uint8_t *aa = (const volatile uint8_t *)a, *bb = (const volatile uint8_t *)b;
    size_t i = 0;
    uint64_t acc = 0;
    for (; i + 8 <= n; i += 8) acc |= *(const volatile uint64_t *)(aa + i) ^ *(const volatile uint64_t *)(bb + i);
    for (; i < n; i++) acc |= (uint64_t)(aa[i] ^ bb[i]);
    return acc == 0;
}

void LibImage::init() {
    dl_iterate_phdr(phdr_cb, nullptr);
    if (path.empty()) { fprintf(stderr, "sim: libsafec_sim.so not loaded\n"); _exit(2); }
    FILE *f = fopen(path.c_str(), "rb");
    if (!f) { perror(path.c_str()); _exit(2); }
    std::vector<uint8_t> img;
    fseek(f, 0, SEEK_END);
    long sz = ftell(f);
    fseek(f, 0, SEEK_SET);
    img.resize(sz);
    if (fread(img.data(), 1, sz, f) != (size_t)sz) { _exit(2); }
    fclose(f);
    const Elf64_Ehdr *eh = (const Elf64_Ehdr *)img.data();
    const Elf64_Shdr *sh = (const Elf64_Shdr *)(img.data() + eh->e_shoff);
    const char *shstr = (const char *)img.data() + sh[eh->e_shstrndx].sh_offset;
    int idx_data = -1, idx_bss = -1, idx_tbss = -1, idx_sym = -1;
    for (int i = 0; i < eh->e_shnum; i++) {
        const char *n = shstr + sh[i].sh_name;
        if (!strcmp(n, ".data")) idx_data = i;
        else if (!strcmp(n, ".bss")) idx_bss = i;
        else if (!strcmp(n, ".tbss")) idx_tbss = i;
        else if (!strcmp(n, ".symtab")) idx_sym = i;
    }
    if (idx_data >= 0) { lo[0] = base + sh[idx_data].sh_addr; hi[0] = lo[0] + sh[idx_data].sh_size; }
    if (idx_bss >= 0) { lo[1] = base + sh[idx_bss].sh_addr; hi[1] = lo[1] + sh[idx_bss].sh_size; }
    if (idx_sym >= 0) {
        const Elf64_Sym *st = (const Elf64_Sym *)(img.data() + sh[idx_sym].sh_offset);
        size_t n = sh[idx_sym].sh_size / sizeof(Elf64_Sym);
        const char *str = (const char *)img.data() + sh[sh[idx_sym].sh_link].sh_offset;
        std::string curfile = "?";
        for (size_t i = 0; i < n; i++) {
            int type = ELF64_ST_TYPE(st[i].st_info);
            int bind = ELF64_ST_BIND(st[i].st_info);
            if (type == STT_FILE) { curfile = str + st[i].st_name; continue; }
            std::string file = bind == STB_LOCAL ? curfile : std::string("");
            if ((type == STT_OBJECT || type == STT_TLS) && st[i].st_size) {
                int sect = st[i].st_shndx == idx_data ? 0 : st[i].st_shndx == idx_bss ? 1
                         : st[i].st_shndx == idx_tbss ? 2 : -1;
                if (sect < 0) continue;
                StatSym s;
                s.addr = sect == 2 ? st[i].st_value : base + st[i].st_value;
                s.size = st[i].st_size;
                s.name = str + st[i].st_name;
                s.file = file;
                s.sect = sect;
                syms.push_back(s);
            } else if (type == STT_FUNC && st[i].st_size) {
                FuncSym fs;
                fs.addr = base + st[i].st_value;
                fs.size = st[i].st_size;
                fs.name = str + st[i].st_name;
                fs.file = file;
                funcs.push_back(fs);
            }
        }
        std::sort(funcs.begin(), funcs.end(), [](const FuncSym &a, const FuncSym &b) { return a.addr < b.addr; });
    }
    for (int s = 0; s < 2; s++) {
        pristine[s].resize(hi[s] - lo[s]);
        cur[s].resize(hi[s] - lo[s]);
        raw_copy(pristine[s].data(), (void *)lo[s], hi[s] - lo[s]);
    }
}
void LibImage::restore_pristine() {
    for (int s = 0; s < 2; s++) raw_copy((void *)lo[s], pristine[s].data(), hi[s] - lo[s]);
}
void LibImage::sync_cur() {
    for (int s = 0; s < 2; s++) raw_copy(cur[s].data(), (void *)lo[s], hi[s] - lo[s]);
}
int LibImage::sym_at(uintptr_t addr) {
    for (size_t i = 0; i < syms.size(); i++)
        if (syms[i].sect != 2 && addr >= syms[i].addr && addr < syms[i].addr + syms[i].size) return (int)i;
    int sect = (addr >= lo[0] && addr < hi[0]) ? 0 : 1;
    uintptr_t off = (addr - lo[sect]) & ~(uintptr_t)63;
    StatSym s;
    s.addr = lo[sect] + off;
    s.size = 64;
    char nm[64];
    snprintf(nm, sizeof nm, "%s+0x%lx", sect ? ".bss" : ".data", (unsigned long)off);
    s.name = nm;
    s.file = "?";
    s.sect = sect;
    syms.push_back(s);
    return (int)syms.size() - 1;
}
NOSAN void LibImage::diff_cur(std::vector<int> &out) {
    for (int s = 0; s < 2; s++) {
        size_t n = hi[s] - lo[s];
        const volatile uint8_t *live = (const volatile uint8_t *)lo[s];
        uint8_t *c = cur[s].data();
        if (raw_equal((const void *)live, c, n)) continue;
        for (size_t i = 0; i < n; i++) {
            uint8_t v = live[i];
            if (v != c[i]) {
                int k = sym_at(lo[s] + i);
                if (std::find(out.begin(), out.end(), k) == out.end()) out.push_back(k);
                c[i] = v;
            }
        }
    }
}
const FuncSym *LibImage::func_at(uintptr_t pc) const {
    size_t a = 0, b = funcs.size();
    while (a < b) {
        size_t m = (a + b) / 2;
        if (funcs[m].addr + funcs[m].size <= pc) a = m + 1;
        else if (funcs[m].addr > pc) b = m;
        else return &funcs[m];
    }
    return nullptr;
}
std::string LibImage::sym_key(int idx) const {
    const StatSym &s = syms[idx];
    std::string f = s.file;
    return (f.empty() ? std::string("") : f + ":") + s.name;
}

// ------------------------------------------------------------------ coverage callbacks = yield points
uint32_t g_nguards = 0;
uint8_t *g_covhit = nullptr;
uintptr_t *g_covpc = nullptr;
static void event_slow(Task &t);
static void event_slow_tramp(void *p) { event_slow(*(Task *)p); }
enum { ALT_STACK_SIZE = 256 * 1024 };

static inline __attribute__((always_inline)) void alt_call_inl(Task *t, void (*fn)(void *), void *arg) {
    t->on_alt = true;
    void *top = t->alt_stack + ALT_STACK_SIZE - 64;
#if defined(__x86_64__)
    // no instruction here writes to the current stack: the return address of the call lands on the
    // alternate stack, the old stack pointer is kept there too
    __asm__ volatile(
        "mov %%rsp, %%rax\n\t"
        "mov %[top], %%rsp\n\t"
        "push %%rax\n\t"
        "sub $8, %%rsp\n\t"
        "call *%[fn]\n\t"
        "add $8, %%rsp\n\t"
        "pop %%rsp\n\t"
        : [fn] "+S"(fn), "+D"(arg), [top] "+d"(top)
        :
        : "rax", "rcx", "r8", "r9", "r10", "r11", "memory", "cc", "xmm0", "xmm1", "xmm2", "xmm3", "xmm4", "xmm5", "xmm6", "xmm7", "xmm8",
          "xmm9", "xmm10", "xmm11", "xmm12", "xmm13", "xmm14", "xmm15");
#else
    fn(arg);
#endif
    t->on_alt = false;
}
void alt_call(void (*fn)(void *), void *arg) {
    Task *t = t_self;
    if (!t || !t->alt_stack || t->on_alt) { fn(arg); return; }
    alt_call_inl(t, fn, arg);
}
enum { EV_CAP = 40 * 1000 * 1000 };

static inline __attribute__((always_inline)) void on_event() {
    Task *t = t_self;
    if (!t || !t->in_op) return;
    t->ev++;
    if (t->countdown && --t->countdown == 0) alt_call_inl(t, event_slow_tramp, t);
    else if (__builtin_expect(t->ev > EV_CAP, 0)) {
        fprintf(stderr, "sim: runaway op (more than %d events)\n", EV_CAP);
        if (g_crash_hook) g_crash_hook(-1);
        _exit(3);
    }
}
void sim_event() { on_event(); }
// a load / store of library code: remember the event if it touches one of the two machine words this task's memory
// shares with its neighbours', or anything beyond its own range inside the arena block
static uintptr_t g_arena_blk_lo = 0, g_arena_blk_span = 0;
static inline __attribute__((always_inline)) void on_access(void *addr, unsigned sz) {
    Task *t = t_self;
    if (t && t->in_op && g_sim.cfg.rec_edges) {
        uintptr_t a = (uintptr_t)addr;
        // a library heap block that was not allocated by the call in progress: state shared between calls (a pool, a
        // cache, a table built once) that the state invariant S cannot see - every access is a conflict point
        for (size_t i = 0; i < g_live.size() && i < 8; i++) {
            const AllocRec &b = g_live[i];
            if (a - (uintptr_t)b.p < b.size && (b.once || !(b.task == t->id && b.op == t->cur_op))) {
                OpResult &r = t->res[t->cur_op];
                if (r.n_edge < 24 && (r.n_edge == 0 || r.edge_ev[r.n_edge - 1] != t->ev + 1)) { r.edge_ev[r.n_edge++] = t->ev + 1; r.n_shared_heap++; }
                break;
            }
        }
        if (a - g_arena_blk_lo < g_arena_blk_span) {
            uintptr_t off = a - (uintptr_t)t->arena.base; // wraps for addresses below the task's own arena
            if (off < 8 || off + sz > (uintptr_t)ARENA_SIZE - 8) {
                OpResult &r = t->res[t->cur_op];
                if (r.n_edge < 24 && (r.n_edge == 0 || r.edge_ev[r.n_edge - 1] != t->ev + 1)) r.edge_ev[r.n_edge++] = t->ev + 1;
            }
        }
    }
    on_event();
}

extern "C" {
NOSAN void __sanitizer_cov_trace_pc_guard_init(uint32_t *start, uint32_t *stop) {
    if (start == stop || *start) return;
    for (uint32_t *g = start; g < stop; g++) *g = ++g_nguards;
}
// pc-table: the PC of every guard, hit or not, in guard order (one table per object file, same order as the guards)
// (plain zero-initialised storage: this runs from the library's constructors, before this file's own)
static uintptr_t *g_all_pcs;
static size_t g_all_pcs_n, g_all_pcs_cap;
NOSAN void __sanitizer_cov_pcs_init(const uintptr_t *beg, const uintptr_t *end) {
    for (const uintptr_t *p = beg; p < end; p += 2) {
        if (g_all_pcs_n == g_all_pcs_cap) {
            g_all_pcs_cap = g_all_pcs_cap ? 2 * g_all_pcs_cap : 4096;
            g_all_pcs = (uintptr_t *)realloc(g_all_pcs, g_all_pcs_cap * sizeof(uintptr_t));
        }
        g_all_pcs[g_all_pcs_n++] = p[0];
    }
}
NOSAN void __sanitizer_cov_trace_pc_guard(uint32_t *guard) {
    uint32_t i = *guard;
    if (g_covhit && !g_covhit[i]) {
        g_covhit[i] = 1;
        g_covpc[i] = (uintptr_t)__builtin_return_address(0);
    }
    on_event();
}
NOSAN void __sanitizer_cov_trace_cmp1(uint8_t, uint8_t) { on_event(); }
NOSAN void __sanitizer_cov_trace_cmp2(uint16_t, uint16_t) { on_event(); }
NOSAN void __sanitizer_cov_trace_cmp4(uint32_t, uint32_t) { on_event(); }
NOSAN void __sanitizer_cov_trace_cmp8(uint64_t, uint64_t) { on_event(); }
NOSAN void __sanitizer_cov_trace_const_cmp1(uint8_t, uint8_t) { on_event(); }
NOSAN void __sanitizer_cov_trace_const_cmp2(uint16_t, uint16_t) { on_event(); }
NOSAN void __sanitizer_cov_trace_const_cmp4(uint32_t, uint32_t) { on_event(); }
NOSAN void __sanitizer_cov_trace_const_cmp8(uint64_t, uint64_t) { on_event(); }
NOSAN void __sanitizer_cov_trace_switch(uint64_t, uint64_t *) { on_event(); }
NOSAN void __sanitizer_cov_load1(void *a) { on_access(a, 1); }
NOSAN void __sanitizer_cov_load2(void *a) { on_access(a, 2); }
NOSAN void __sanitizer_cov_load4(void *a) { on_access(a, 4); }
NOSAN void __sanitizer_cov_load8(void *a) { on_access(a, 8); }
NOSAN void __sanitizer_cov_load16(void *a) { on_access(a, 16); }
NOSAN void __sanitizer_cov_store1(void *a) { on_access(a, 1); }
NOSAN void __sanitizer_cov_store2(void *a) { on_access(a, 2); }
NOSAN void __sanitizer_cov_store4(void *a) { on_access(a, 4); }
NOSAN void __sanitizer_cov_store8(void *a) { on_access(a, 8); }
NOSAN void __sanitizer_cov_store16(void *a) { on_access(a, 16); }
}

void dump_unhit_pcs(const char *path) {
    FILE *f = fopen(path, "w");
    if (!f || g_all_pcs_n != g_nguards) return;
    for (uint32_t i = 1; i <= g_nguards; i++)
        if (!g_covhit[i]) fprintf(f, "0x%lx\n", (unsigned long)(g_all_pcs[i - 1] - g_lib.base));
    fclose(f);
}
bool func_was_hit(const char *name) {
    for (uint32_t i = 1; i <= g_nguards; i++) {
        if (!g_covhit[i]) continue;
        const FuncSym *f = g_lib.func_at(g_covpc[i]);
        if (f && f->name == name) return true;
    }
    return false;
}
std::map<std::string, std::pair<int, int>> coverage_by_function() {
    std::map<std::string, std::pair<int, int>> m; // function -> (guards hit, guards present)
    bool have_table = g_all_pcs_n == g_nguards;
    for (uint32_t i = 1; i <= g_nguards; i++) {
        uintptr_t pc = have_table ? g_all_pcs[i - 1] : g_covpc[i];
        if (!have_table && !g_covhit[i]) continue;
        const FuncSym *f = g_lib.func_at(pc);
        std::string key = f ? (f->file.empty() ? f->name : f->file + ":" + f->name) : std::string("?");
        if (g_covhit[i]) m[key].first++;
        m[key].second++;
    }
    return m;
}

// ------------------------------------------------------------------ event log
void sim_log(uint64_t kind, uint64_t a, uint64_t b) {
    g_sim.seq++;
    g_sim.log.u64(kind);
    g_sim.log.u64(a);
    g_sim.log.u64(b);
}
enum { LOG_INVOKE = 1, LOG_RETURN, LOG_SWITCH, LOG_HANDLER, LOG_FAULT, LOG_ALLOC, LOG_FREE, LOG_SPAWN, LOG_JOIN };

// ------------------------------------------------------------------ allocator seam
std::vector<AllocRec> g_live;
std::vector<void *> g_freed;
struct SiteInfo {
    uintptr_t off; // return address relative to library base
    std::string name;
};
static std::vector<SiteInfo> g_sites;
std::vector<uint64_t> g_site_reached, g_site_failed;

void load_sites_file(const char *path) {
    // lines: <hex offset of return address> <name>
    FILE *f = fopen(path, "r");
    if (!f) return;
    char nm[256];
    unsigned long off;
    while (fscanf(f, "%lx %255s", &off, nm) == 2) {
        g_sites.push_back({(uintptr_t)off, nm});
        g_site_reached.push_back(0);
        g_site_failed.push_back(0);
    }
    fclose(f);
}
uint32_t site_id(uintptr_t ra) {
    uintptr_t off = ra - g_lib.base;
    for (size_t i = 0; i < g_sites.size(); i++)
        if (g_sites[i].off == off) return (uint32_t)i;
    const FuncSym *f = g_lib.func_at(ra);
    char nm[300];
    snprintf(nm, sizeof nm, "%s+0x%lx", f ? f->name.c_str() : "?", (unsigned long)(f ? ra - f->addr : off));
    g_sites.push_back({off, nm});
    g_site_reached.push_back(0);
    g_site_failed.push_back(0);
    return (uint32_t)g_sites.size() - 1;
}
std::string site_name(uint32_t id) { return id < g_sites.size() ? g_sites[id].name : std::string("?"); }

static inline bool should_fail(const Fault &f, uint32_t k) {
    if (k >= 1 && k <= 64 && ((f.alloc_mask >> (k - 1)) & 1)) return true;
    if (!f.alloc_k) return false;
    if ((int)k == f.alloc_k || (int)k == f.alloc_k2) return true;
    return f.alloc_mode == 1 && (int)k >= f.alloc_k;
}
static bool untrack(void *p) {
    for (size_t i = g_live.size(); i-- > 0;)
        if (g_live[i].p == p) { g_live.erase(g_live.begin() + i); return true; }
    return false;
}
static void forget_freed(void *p) {
    for (size_t i = g_freed.size(); i-- > 0;)
        if (g_freed[i] == p) { g_freed.erase(g_freed.begin() + i); return; }
}
// returns true if the request is to be failed
static bool alloc_request(Task *t, uintptr_t ra, uint32_t *site_out) {
    OpResult &r = t->res[t->cur_op];
    uint32_t k = ++t->alloc_count;
    uint32_t s = site_id(ra);
    if (t->in_once > 0 && r.once_allocs < 255) r.once_allocs++;
    *site_out = s;
    r.nalloc++;
    r.sites.push_back(s);
    g_site_reached[s]++;
    sim_log(LOG_ALLOC, ((uint64_t)t->id << 32) | (uint32_t)t->cur_op, ((uint64_t)s << 32) | k);
    if (should_fail(t->op->f, k)) {
        r.nfailed++;
        g_site_failed[s]++;
        sim_log(LOG_FAULT, 1, k);
        return true;
    }
    return false;
}
// bit i of OpResult::libc_static: the call used libc function g_libc_static_names[i], which keeps its
// result or its continuation state in static storage shared by all threads
const char *g_libc_static_names[] = {"asctime", "ctime", "localtime", "gmtime", "strtok", "tmpnam(NULL)", "rand", "setlocale(change)",
                                     // process-wide settings: a call that changes one (even if it puts it back) is visible to every thread
                                     "umask", "setenv", "putenv", "unsetenv", "chdir", "fesetround", "signal", "sigaction", "srand",
                                     // more libc facilities with static result buffers / hidden generator state
                                     "ecvt", "fcvt", "random", "srandom", "drand48", "lrand48", "mrand48", "srand48", "strsignal", "inet_ntoa",
                                     "ttyname", "getlogin", "l64a",
                                     // multibyte -> wide conversion through libc's hidden conversion state (a partial character
                                     // left by one call is continued by the next, whichever thread makes it)
                                     "mbtowc/mblen (hidden conversion state)", "mbrtowc/mbrlen/mbsrtowcs/mbsnrtowcs(NULL state)",
                                     // 32.. : more functions POSIX lists as "need not be thread-safe" because they return or keep static data
                                     "localeconv", "getpwnam", "getpwuid", "getgrnam", "getgrgid", "readdir", "hsearch", "ptsname", "lgamma (signgam)", "getdate", nullptr};
static void libc_probe(int idx) {
    Task *t = t_self;
    if (t && t->op) {
        t->res[t->cur_op].libc_static |= 1ull << idx;
        sim_log(100, (uint64_t)idx, 0);
    }
    on_event();
}
// ---- heap guard: every block the library gets from malloc / calloc / realloc is followed by a red zone; a released
// block is poisoned and kept in quarantine until the call that released it returns. Overwritten red zones and
// overwritten poison are counted per call (C20 judges them in faulted executions).
#ifdef VARIANT_asan
#include <sanitizer/asan_interface.h>
#define QUAR_POISON(p, n) __asan_poison_memory_region((p), (n))
#define QUAR_UNPOISON(p, n) __asan_unpoison_memory_region((p), (n))
#else
#define QUAR_POISON(p, n) ((void)0)
#define QUAR_UNPOISON(p, n) ((void)0)
#endif
struct Quar { void *p; size_t size; int task; uint8_t fill; };
static std::vector<Quar> g_quar;
// a guarded block: [front red zone][user bytes][back red zone]; the library sees the address of the user bytes
NOSAN static void rz_fill(void *p, size_t size) {
    memset((uint8_t *)p + size, 0xA5, HEAP_RZ);
    memset((uint8_t *)p - HEAP_RZ, 0xA5, HEAP_RZ);
}
NOSAN static bool rz_ok(const void *p, size_t size) {
    const uint8_t *z = (const uint8_t *)p + size, *f = (const uint8_t *)p - HEAP_RZ;
    for (int i = 0; i < HEAP_RZ; i++)
        if (z[i] != 0xA5 || f[i] != 0xA5) return false;
    return true;
}
// What a fresh block holds is what the block released last held (that is how an allocator recycles memory): the user
// bytes of a new block are filled with the contents of the most recently released library block, whoever released it
// (zeros if nothing has been released in this pass). A call that reads heap memory it has not written gets, interleaved
// with another thread's call, something else than alone.
static uint8_t g_last_released[256];
static size_t g_last_released_n = 0;
static void remember_released(const void *p, size_t n) {
    g_last_released_n = n < sizeof g_last_released ? n : sizeof g_last_released;
    memcpy(g_last_released, p, g_last_released_n);
}
static void *guarded_alloc(size_t n) {
    uint8_t *b = (uint8_t *)malloc(n + 2 * HEAP_RZ);
    if (!b) return nullptr;
    uint8_t *u = b + HEAP_RZ;
    if (!g_last_released_n) memset(u, 0, n);
    else
        for (size_t i = 0; i < n; i += g_last_released_n) memcpy(u + i, g_last_released, n - i < g_last_released_n ? n - i : g_last_released_n);
    rz_fill(u, n);
    return u;
}
static void guarded_release(void *p) { free((uint8_t *)p - HEAP_RZ); }
static AllocRec *live_rec(void *p) {
    for (size_t i = g_live.size(); i-- > 0;)
        if (g_live[i].p == p) return &g_live[i];
    return nullptr;
}
static bool in_quarantine(void *p) {
    for (auto &q : g_quar)
        if (q.p == p) return true;
    return false;
}
// end of a call of task tid (or of the pass, tid < 0): poison intact? then really release
static uint32_t quarantine_flush(int tid) {
    uint32_t bad = 0;
    for (size_t i = 0; i < g_quar.size();) {
        if (tid >= 0 && g_quar[i].task != tid) { i++; continue; }
        const uint8_t *b = (const uint8_t *)g_quar[i].p;
        QUAR_UNPOISON(g_quar[i].p, g_quar[i].size + HEAP_RZ);
        bool ok = true;
        for (size_t k = 0; k < g_quar[i].size + HEAP_RZ && ok; k++) ok = b[k] == g_quar[i].fill;
        if (!ok) bad++;
        guarded_release(g_quar[i].p);
        forget_freed(g_quar[i].p);
        g_quar.erase(g_quar.begin() + i);
    }
    return bad;
}
static void quarantine_block(Task *t, void *p, size_t size) {
    remember_released(p, size);
    memset(p, 0xDD, size + HEAP_RZ);
    QUAR_POISON(p, size + HEAP_RZ); // ASan variant: any access by the library is reported at once
    g_quar.push_back({p, size, t->id, 0xDD});
}
// Another task has just been given memory: what a released block of THIS task's call holds from now on is up to that
// task (the allocator may have handed it the very block). The released blocks of all other tasks' calls in progress
// change their contents, so a call that still reads a block it has released gets something else than when run alone.
static void scribble_foreign_quarantine(Task *t) {
    for (auto &q : g_quar)
        if (q.task != t->id && q.fill != 0x00) {
            QUAR_UNPOISON(q.p, q.size + HEAP_RZ);
            memset(q.p, 0x00, q.size + HEAP_RZ);
            QUAR_POISON(q.p, q.size + HEAP_RZ);
            q.fill = 0x00;
        }
}
struct AllocCall {
    int kind; // 0 malloc, 1 calloc, 2 realloc, 3 free
    size_t a, b;
    void *old;
    uintptr_t ra;
    void *result;
};
static void alloc_body(void *p_) {
    AllocCall *c = (AllocCall *)p_;
    Task *t = t_self;
    bool save = t->in_op;
    t->in_op = false;
    if (c->kind == 3) {
        if (c->old) {
            sim_log(LOG_FREE, t->id, 0);
            AllocRec *rec = live_rec(c->old);
            if (rec && rec->guarded) {
                if (!rz_ok(rec->p, rec->size)) { t->res[t->cur_op].heap_overrun++; sim_log(LOG_FAULT, 10, 0); }
                quarantine_block(t, rec->p, rec->size);
                untrack(c->old);
                g_freed.push_back(c->old);
                t->in_op = save;
                return; // released for real when the call returns
            }
            if (untrack(c->old)) g_freed.push_back(c->old);
            else if (std::find(g_freed.begin(), g_freed.end(), c->old) != g_freed.end()) {
                // the library releases a block it has already released: record it, do not corrupt the heap
                t->res[t->cur_op].double_free++;
                sim_log(LOG_FAULT, 9, 0);
                t->in_op = save;
                return;
            }
        }
        free(c->old);
        t->in_op = save;
        return;
    }
    uint32_t s;
    c->result = nullptr;
    if (c->kind == 4) { // request made through a libc convenience allocator: only count it and decide
        c->result = alloc_request(t, c->ra, &s) ? (void *)1 : nullptr;
        t->in_op = save;
        return;
    }
    if (alloc_request(t, c->ra, &s)) errno = ENOMEM;
    else if (c->kind == 0 || c->kind == 1) {
        size_t n = c->a;
        bool ovf = false;
        if (c->kind == 1) ovf = __builtin_mul_overflow(c->a, c->b, &n);
        if (ovf || n > (size_t)1 << 40) { errno = ENOMEM; t->in_op = save; return; }
        c->result = guarded_alloc(n);
        if (c->result) {
            if (c->kind == 1) memset(c->result, 0, n);
            forget_freed(c->result);
            g_live.push_back({c->result, n, s, t->id, t->cur_op, true, t->in_once > 0});
            scribble_foreign_quarantine(t);
        }
    } else {
        if (c->a == 0 && c->old) { // realloc(p, 0) releases p (glibc)
            AllocCall f = {3, 0, 0, c->old, 0, nullptr};
            alloc_body(&f);
            t->in_op = save;
            return;
        }
        // keep the attribution of the block to the op that first allocated it
        int owner_task = t->id, owner_op = t->cur_op;
        AllocRec *rec = c->old ? live_rec(c->old) : nullptr;
        void *old = c->old;
        if (c->a > (size_t)1 << 40) { errno = ENOMEM; t->in_op = save; return; }
        if (old && !rec && in_quarantine(old)) {
            // the library grows a block it has released
            t->res[t->cur_op].heap_uaf++;
            sim_log(LOG_FAULT, 11, 0);
            old = nullptr;
        }
        if (old && !rec) {
            // a block this seam has never seen (handed to the library by libc): libc's business
            c->result = realloc(old, c->a);
            if (c->result) g_live.push_back({c->result, c->a, s, owner_task, owner_op, false});
            t->in_op = save;
            return;
        }
        // a successful realloc always moves the block (it may): the old block is released - poisoned and quarantined
        // like any released block - so a pointer into it that the library keeps using shows
        void *np = guarded_alloc(c->a);
        if (np && rec) {
            owner_task = rec->task;
            owner_op = rec->op;
            size_t osz = rec->size;
            bool was_guarded = rec->guarded;
            if (was_guarded && !rz_ok(old, osz)) { t->res[t->cur_op].heap_overrun++; sim_log(LOG_FAULT, 10, 0); }
            memcpy(np, old, osz < c->a ? osz : c->a);
            untrack(old);
            if (was_guarded) { quarantine_block(t, old, osz); g_freed.push_back(old); }
            else free(old); // came from a libc convenience allocator
        }
        c->result = np;
        if (c->result) {
            forget_freed(c->result);
            g_live.push_back({c->result, c->a, s, owner_task, owner_op, true});
            scribble_foreign_quarantine(t);
        }
    }
    t->in_op = save;
}
extern "C" {
void *__wrap_malloc(size_t n) {
    Task *t = t_self;
    if (!t || !t->op) return malloc(n);
    AllocCall c = {0, n, 0, nullptr, (uintptr_t)__builtin_return_address(0), nullptr};
    alt_call(alloc_body, &c);
    void *r = c.result;
    c.result = nullptr;
    on_event();
    return r;
}
void *__wrap_calloc(size_t a, size_t b) {
    Task *t = t_self;
    if (!t || !t->op) return calloc(a, b);
    AllocCall c = {1, a, b, nullptr, (uintptr_t)__builtin_return_address(0), nullptr};
    alt_call(alloc_body, &c);
    void *r = c.result;
    c.result = nullptr;
    on_event();
    return r;
}
void *__wrap_realloc(void *old, size_t n) {
    Task *t = t_self;
    if (!t || !t->op) return realloc(old, n);
    AllocCall c = {2, n, 0, old, (uintptr_t)__builtin_return_address(0), nullptr};
    alt_call(alloc_body, &c);
    void *r = c.result;
    c.result = nullptr;
    sim_conflict_point(); // the heap is process-wide: what becomes of the old block is up to whoever allocates next
    return r;
}
void __wrap_free(void *p) {
    Task *t = t_self;
    if (!t || !t->op) {
        // library code releasing outside a call: a thread-exit destructor, or a renewal of the thread (oracle H)
        if (t && p && g_sim.in_pass) {
            AllocRec *rec = live_rec(p);
            bool guarded = rec && rec->guarded;
            untrack(p);
            if (guarded) { guarded_release(p); return; }
        }
        free(p);
        return;
    }
    AllocCall c = {3, 0, 0, p, 0, nullptr};
    alt_call(alloc_body, &c);
    sim_conflict_point();
}

// ---- locks taken by library code. The unchanged library has none, but a change may add one. Under a serialising
// scheduler the running task must never block in the kernel on a lock whose holder is parked, so lock operations are
// simulated: a table of holders, and a task that needs a held lock hands the processor to the holder. The real lock
// object is not used while a pass runs (only simulated tasks contend for it, one at a time).
struct SimLock {
    void *addr;
    int owner;   // task id, -1 free
    int count;   // recursion / reader count
    int readers;
};
static std::vector<SimLock> g_locks;
static SimLock &sim_lock_of(void *addr) {
    for (auto &l : g_locks)
        if (l.addr == addr) return l;
    g_locks.push_back({addr, -1, 0, 0});
    return g_locks.back();
}
static void lock_wait_for(Task *t, int owner) {
    if (owner < 0 || owner >= (int)g_sim.tasks.size() || g_sim.tasks[owner]->state != T_RUNNABLE) {
        fprintf(stderr, "sim: task %d waits for a lock whose holder (task %d) cannot run: deadlock in the code under test\n", t->id, owner);
        if (g_crash_hook) g_crash_hook(-2);
        _exit(4);
    }
    sim_switch_to(*t, owner);
}
static int sim_lock_acquire(void *addr, bool try_only, bool shared) {
    Task *t = t_self;
    on_event();
    for (;;) {
        SimLock &l = sim_lock_of(addr);
        if (shared && l.owner < 0) { l.readers++; return 0; }
        if (!shared && l.readers == 0 && (l.owner < 0 || l.owner == t->id)) { l.owner = t->id; l.count++; return 0; }
        if (try_only) return EBUSY;
        int holder = l.owner;
        if (holder < 0) { // held by readers: let anybody else run
            holder = lowest_runnable(t->id);
        }
        lock_wait_for(t, holder);
    }
}
static int sim_lock_release(void *addr) {
    SimLock &l = sim_lock_of(addr);
    if (l.readers > 0 && l.owner < 0) l.readers--;
    else if (l.count > 0 && --l.count == 0) l.owner = -1;
    on_event();
    return 0;
}
std::set<std::string> g_once_syms; // static objects written by one-time initialisers (exempt from S)
static void once_diff(void *after) {
    Task *t = t_self;
    bool save = t->in_op;
    t->in_op = false;
    if (!after) g_lib.diff_cur(t->res[t->cur_op].footprint);
    else {
        std::vector<int> init;
        g_lib.diff_cur(init);
        for (int k : init)
            if (g_once_syms.insert(g_lib.sym_key(k)).second) { printf("ONCE %s\n", g_lib.sym_key(k).c_str()); fflush(stdout); }
    }
    t->in_op = save;
}
struct SimOnce { void *addr; int state; int owner; }; // 0 not started, 1 running, 2 done
static std::vector<SimOnce> g_onces;
static int sim_once(void *ctl, void (*fn)(void)) {
    Task *t = t_self;
    for (;;) {
        SimOnce *o = nullptr;
        for (auto &x : g_onces)
            if (x.addr == ctl) o = &x;
        if (!o) { g_onces.push_back({ctl, 0, -1}); o = &g_onces.back(); }
        if (o->state == 2) return 0;
        if (o->state == 0) {
            o->state = 1;
            o->owner = t->id;
            size_t idx = o - g_onces.data();
            // One-time initialisation under pthread_once / call_once is not "state kept between calls": what the
            // callback writes to static storage is exempt from the state invariant S (and listed in the evidence).
            // What the call wrote before entering the callback is attributed to it as usual.
            bool track = g_sim.cfg.track_static && t->op;
            if (track) alt_call(once_diff, (void *)0);
            t->in_once++;
            fn();
            t->in_once--;
            if (track) alt_call(once_diff, (void *)1);
            g_onces[idx].state = 2;
            return 0;
        }
        lock_wait_for(t, o->owner);
    }
}
#define IN_SIM() (t_self != nullptr && g_sim.in_pass)
extern "C" {
int __wrap_pthread_mutex_lock(pthread_mutex_t *m) { return IN_SIM() ? sim_lock_acquire(m, false, false) : pthread_mutex_lock(m); }
int __wrap_pthread_mutex_trylock(pthread_mutex_t *m) { return IN_SIM() ? sim_lock_acquire(m, true, false) : pthread_mutex_trylock(m); }
int __wrap_pthread_mutex_unlock(pthread_mutex_t *m) { return IN_SIM() ? sim_lock_release(m) : pthread_mutex_unlock(m); }
int __wrap_pthread_spin_lock(pthread_spinlock_t *m) { return IN_SIM() ? sim_lock_acquire((void *)m, false, false) : pthread_spin_lock(m); }
int __wrap_pthread_spin_trylock(pthread_spinlock_t *m) { return IN_SIM() ? sim_lock_acquire((void *)m, true, false) : pthread_spin_trylock(m); }
int __wrap_pthread_spin_unlock(pthread_spinlock_t *m) { return IN_SIM() ? sim_lock_release((void *)m) : pthread_spin_unlock(m); }
int __wrap_pthread_rwlock_rdlock(pthread_rwlock_t *m) { return IN_SIM() ? sim_lock_acquire(m, false, true) : pthread_rwlock_rdlock(m); }
int __wrap_pthread_rwlock_wrlock(pthread_rwlock_t *m) { return IN_SIM() ? sim_lock_acquire(m, false, false) : pthread_rwlock_wrlock(m); }
int __wrap_pthread_rwlock_unlock(pthread_rwlock_t *m) { return IN_SIM() ? sim_lock_release(m) : pthread_rwlock_unlock(m); }
int __wrap_pthread_once(pthread_once_t *c, void (*fn)(void)) { return IN_SIM() ? sim_once(c, fn) : pthread_once(c, fn); }
int __wrap_mtx_lock(void *m) { return IN_SIM() ? (sim_lock_acquire(m, false, false), 0) : pthread_mutex_lock((pthread_mutex_t *)m); }
int __wrap_mtx_trylock(void *m) { return IN_SIM() ? (sim_lock_acquire(m, true, false) ? 1 /*thrd_busy*/ : 0) : pthread_mutex_trylock((pthread_mutex_t *)m); }
int __wrap_mtx_unlock(void *m) { return IN_SIM() ? sim_lock_release(m) : pthread_mutex_unlock((pthread_mutex_t *)m); }
void __wrap_call_once(void *c, void (*fn)(void)) { if (IN_SIM()) sim_once(c, fn); else pthread_once((pthread_once_t *)c, fn); }
}

// ---- thread-specific data keys created by library code: remembered so that (a) a pass can give them back (the statics
// that hold them are restored for every pass, so the library creates them again) and (b) a thread can be "renewed"
struct LibKey { pthread_key_t key; void (*dtor)(void *); };
static std::vector<LibKey> g_lib_keys;
extern "C" {
int __wrap_pthread_key_create(pthread_key_t *key, void (*dtor)(void *)) {
    on_event();
    int rc = pthread_key_create(key, dtor);
    if (rc == 0) g_lib_keys.push_back({*key, dtor});
    return rc;
}
int __wrap_pthread_key_delete(pthread_key_t key) {
    on_event();
    for (size_t i = 0; i < g_lib_keys.size(); i++)
        if (g_lib_keys[i].key == key) { g_lib_keys.erase(g_lib_keys.begin() + i); break; }
    return pthread_key_delete(key);
}
int __wrap_tss_create(pthread_key_t *key, void (*dtor)(void *)) { return __wrap_pthread_key_create(key, dtor) == 0 ? 0 /*thrd_success*/ : 2 /*thrd_error*/; }
void __wrap_tss_delete(pthread_key_t key) { __wrap_pthread_key_delete(key); }
}
static void lib_keys_release() {
    for (auto &k : g_lib_keys) pthread_key_delete(k.key);
    g_lib_keys.clear();
}

// ---- thread renewal (C12 oracle H): what the library keeps per thread is put back to what a thread that has just
// been created sees - the library's thread-local block is re-initialised from its image, values the library stored
// under keys it created are destructed (as at thread exit) and cleared.
struct TlsBlk { void *data; uintptr_t init; size_t filesz, memsz; };
static int tls_cb(struct dl_phdr_info *info, size_t, void *out) {
    if (info->dlpi_addr != g_lib.base) return 0;
    TlsBlk *b = (TlsBlk *)out;
    for (int i = 0; i < info->dlpi_phnum; i++)
        if (info->dlpi_phdr[i].p_type == PT_TLS) {
            b->data = info->dlpi_tls_data;
            b->init = info->dlpi_addr + info->dlpi_phdr[i].p_vaddr;
            b->filesz = info->dlpi_phdr[i].p_filesz;
            b->memsz = info->dlpi_phdr[i].p_memsz;
        }
    return 1;
}
extern "C++" size_t lib_tls_size() {
    TlsBlk b = {nullptr, 0, 0, 0};
    dl_iterate_phdr(tls_cb, &b);
    return b.data ? b.memsz : 0;
}
extern "C++" void lib_thread_renew() {
    for (int round = 0; round < 4; round++) {
        bool any = false;
        for (size_t i = 0; i < g_lib_keys.size(); i++) {
            LibKey k = g_lib_keys[i];
            void *v = pthread_getspecific(k.key);
            if (!v) continue;
            pthread_setspecific(k.key, nullptr);
            if (k.dtor) k.dtor(v);
            any = true;
        }
        if (!any) break;
    }
    TlsBlk b = {nullptr, 0, 0, 0};
    dl_iterate_phdr(tls_cb, &b);
    if (!b.data || !b.memsz) return;
    raw_copy(b.data, (const void *)b.init, b.filesz);
    volatile uint8_t *z = (volatile uint8_t *)b.data;
    for (size_t i = b.filesz; i < b.memsz; i++) z[i] = 0;
}

// non-reentrant libc entry points: referenced by the library only if a change
// introduces them; their use is a yield point and is logged (C12 channel probe)
char *__wrap_asctime(const struct tm *tm) { libc_probe(0); char *r = asctime(tm); on_event(); return r; }
char *__wrap_ctime(const time_t *t) { libc_probe(1); char *r = ctime(t); on_event(); return r; }
struct tm *__wrap_localtime(const time_t *t) { libc_probe(2); struct tm *r = localtime(t); on_event(); return r; }
struct tm *__wrap_gmtime(const time_t *t) { libc_probe(3); struct tm *r = gmtime(t); on_event(); return r; }
char *__wrap_strtok(char *s, const char *d) { libc_probe(4); char *r = strtok(s, d); on_event(); return r; }
char *__wrap_tmpnam(char *s) { if (!s) libc_probe(5); else on_event(); char *r = tmpnam(s); on_event(); return r; }
int __wrap_wctomb(char *s, wchar_t wc) { on_event(); int r = wctomb(s, wc); on_event(); return r; }
int __wrap_mbtowc(wchar_t *pwc, const char *s, size_t n) { if (s) libc_probe(30); else on_event(); int r = mbtowc(pwc, s, n); on_event(); return r; }
int __wrap_mblen(const char *s, size_t n) { if (s) libc_probe(30); else on_event(); int r = mblen(s, n); on_event(); return r; }
size_t __wrap_mbrtowc(wchar_t *pwc, const char *s, size_t n, mbstate_t *ps) { if (!ps) libc_probe(31); else on_event(); size_t r = mbrtowc(pwc, s, n, ps); on_event(); return r; }
size_t __wrap_mbrlen(const char *s, size_t n, mbstate_t *ps) { if (!ps) libc_probe(31); else on_event(); size_t r = mbrlen(s, n, ps); on_event(); return r; }
// glibc's <wchar.h> inlines mbrlen(s, n, NULL) to __mbrlen
size_t __wrap___mbrlen(const char *s, size_t n, mbstate_t *ps) { if (!ps) libc_probe(31); else on_event(); size_t r = mbrlen(s, n, ps); on_event(); return r; }
size_t __wrap_mbsrtowcs(wchar_t *d, const char **src, size_t len, mbstate_t *ps) { if (!ps) libc_probe(31); else on_event(); size_t r = mbsrtowcs(d, src, len, ps); on_event(); return r; }
size_t __wrap_mbsnrtowcs(wchar_t *d, const char **src, size_t nms, size_t len, mbstate_t *ps) { if (!ps) libc_probe(31); else on_event(); size_t r = mbsnrtowcs(d, src, nms, len, ps); on_event(); return r; }
size_t __wrap_wcrtomb(char *s, wchar_t wc, mbstate_t *ps) { on_event(); size_t r = wcrtomb(s, wc, ps); on_event(); return r; }
char *__wrap_strerror(int e) { on_event(); char *r = strerror(e); on_event(); return r; }
int __wrap_rand(void) { libc_probe(6); return rand(); }
mode_t __wrap_umask(mode_t m) { libc_probe(8); mode_t r = umask(m); on_event(); return r; }
int __wrap_setenv(const char *n, const char *v, int o) { libc_probe(9); int r = setenv(n, v, o); on_event(); return r; }
int __wrap_putenv(char *s) { libc_probe(10); int r = putenv(s); on_event(); return r; }
int __wrap_unsetenv(const char *n) { libc_probe(11); int r = unsetenv(n); on_event(); return r; }
int __wrap_chdir(const char *p) { libc_probe(12); int r = chdir(p); on_event(); return r; }
int __wrap_fesetround(int m) { libc_probe(13); int r = fesetround(m); on_event(); return r; }
sighandler_t __wrap_signal(int sig, sighandler_t h) { libc_probe(14); sighandler_t r = signal(sig, h); on_event(); return r; }
int __wrap_sigaction(int sig, const struct sigaction *a, struct sigaction *o) { if (a) libc_probe(15); else on_event(); int r = sigaction(sig, a, o); on_event(); return r; }
void __wrap_srand(unsigned s) { libc_probe(16); srand(s); on_event(); }
char *__wrap_ecvt(double v, int n, int *d, int *sg) { libc_probe(17); char *r = ecvt(v, n, d, sg); on_event(); return r; }
char *__wrap_fcvt(double v, int n, int *d, int *sg) { libc_probe(18); char *r = fcvt(v, n, d, sg); on_event(); return r; }
long __wrap_random(void) { libc_probe(19); return random(); }
void __wrap_srandom(unsigned s) { libc_probe(20); srandom(s); }
double __wrap_drand48(void) { libc_probe(21); return drand48(); }
long __wrap_lrand48(void) { libc_probe(22); return lrand48(); }
long __wrap_mrand48(void) { libc_probe(23); return mrand48(); }
void __wrap_srand48(long s) { libc_probe(24); srand48(s); }
char *__wrap_strsignal(int sig) { libc_probe(25); char *r = strsignal(sig); on_event(); return r; }
char *__wrap_inet_ntoa(struct in_addr a) { libc_probe(26); char *r = inet_ntoa(a); on_event(); return r; }
char *__wrap_ttyname(int fd) { libc_probe(27); char *r = ttyname(fd); on_event(); return r; }
char *__wrap_getlogin(void) { libc_probe(28); char *r = getlogin(); on_event(); return r; }
char *__wrap_l64a(long v) { libc_probe(29); char *r = l64a(v); on_event(); return r; }

struct lconv *__wrap_localeconv(void) { libc_probe(32); struct lconv *r = localeconv(); on_event(); return r; }
struct passwd *__wrap_getpwnam(const char *n) { libc_probe(33); struct passwd *r = getpwnam(n); on_event(); return r; }
struct passwd *__wrap_getpwuid(uid_t u) { libc_probe(34); struct passwd *r = getpwuid(u); on_event(); return r; }
struct group *__wrap_getgrnam(const char *n) { libc_probe(35); struct group *r = getgrnam(n); on_event(); return r; }
struct group *__wrap_getgrgid(gid_t g) { libc_probe(36); struct group *r = getgrgid(g); on_event(); return r; }
struct dirent *__wrap_readdir(DIR *d) { libc_probe(37); struct dirent *r = readdir(d); on_event(); return r; }
ENTRY *__wrap_hsearch(ENTRY e, ACTION a) { libc_probe(38); ENTRY *r = hsearch(e, a); on_event(); return r; }
char *__wrap_ptsname(int fd) { libc_probe(39); char *r = ptsname(fd); on_event(); return r; }
double __wrap_lgamma(double x) { libc_probe(40); return lgamma(x); }
struct tm *__wrap_getdate(const char *sx) { libc_probe(41); struct tm *r = getdate(sx); on_event(); return r; }

// allocation through libc convenience functions is still "a dynamic allocation the library performs": counted,
// failed on demand and tracked like malloc (C20)
static void *track_result(void *p, size_t n, uintptr_t ra) {
    Task *t = t_self;
    if (p && t && t->op) {
        g_live.push_back({p, n, site_id(ra), t->id, t->cur_op});
        forget_freed(p);
    }
    return p;
}
static bool convenience_request(uintptr_t ra) {
    Task *t = t_self;
    if (!t || !t->op) return false;
    AllocCall c = {4, 0, 0, nullptr, ra, nullptr};
    alt_call(alloc_body, &c);
    return c.result == (void *)1; // 1 = fail this request
}
char *__wrap_strdup(const char *s) {
    uintptr_t ra = (uintptr_t)__builtin_return_address(0);
    if (convenience_request(ra)) { errno = ENOMEM; return nullptr; }
    return (char *)track_result(strdup(s), strlen(s) + 1, ra);
}
char *__wrap_strndup(const char *s, size_t n) {
    uintptr_t ra = (uintptr_t)__builtin_return_address(0);
    if (convenience_request(ra)) { errno = ENOMEM; return nullptr; }
    return (char *)track_result(strndup(s, n), n + 1, ra);
}
wchar_t *__wrap_wcsdup(const wchar_t *s) {
    uintptr_t ra = (uintptr_t)__builtin_return_address(0);
    if (convenience_request(ra)) { errno = ENOMEM; return nullptr; }
    return (wchar_t *)track_result(wcsdup(s), (wcslen(s) + 1) * sizeof(wchar_t), ra);
}
int __wrap_vasprintf(char **strp, const char *fmt, va_list ap) {
    uintptr_t ra = (uintptr_t)__builtin_return_address(0);
    if (convenience_request(ra)) { errno = ENOMEM; *strp = nullptr; return -1; }
    int r = vasprintf(strp, fmt, ap);
    if (r >= 0) track_result(*strp, (size_t)r + 1, ra);
    return r;
}
int __wrap_asprintf(char **strp, const char *fmt, ...) {
    uintptr_t ra = (uintptr_t)__builtin_return_address(0);
    if (convenience_request(ra)) { errno = ENOMEM; *strp = nullptr; return -1; }
    va_list ap;
    va_start(ap, fmt);
    int r = vasprintf(strp, fmt, ap);
    va_end(ap);
    if (r >= 0) track_result(*strp, (size_t)r + 1, ra);
    return r;
}
void *__wrap_reallocarray(void *old, size_t a, size_t b) {
    if (b && a > (size_t)-1 / b) { errno = ENOMEM; return nullptr; }
    return __wrap_realloc(old, a * b);
}
void *__wrap_aligned_alloc(size_t al, size_t n) {
    uintptr_t ra = (uintptr_t)__builtin_return_address(0);
    if (convenience_request(ra)) { errno = ENOMEM; return nullptr; }
    return track_result(aligned_alloc(al, n), n, ra);
}
int __wrap_posix_memalign(void **out, size_t al, size_t n) {
    uintptr_t ra = (uintptr_t)__builtin_return_address(0);
    if (convenience_request(ra)) return ENOMEM;
    int r = posix_memalign(out, al, n);
    if (!r) track_result(*out, n, ra);
    return r;
}
char *__wrap_setlocale(int cat, const char *loc) { if (loc) libc_probe(7); else on_event(); char *r = setlocale(cat, loc); on_event(); return r; }
}

// ------------------------------------------------------------------ handlers
// ---- file-system / descriptor calls made by library code: yield points, conflict points (descriptor numbers and
// path names are process-wide), and a fault seam: the k-th such call of an op fails with the planned errno.
// A failed call has no effect (close / fclose are carried out and then reported as failed, as the kernel does).
static inline void note_conflict_point(Task *t) {
    if (t && t->in_op && g_sim.cfg.rec_edges) {
        OpResult &r = t->res[t->cur_op];
        if (r.n_edge < 24 && (r.n_edge == 0 || r.edge_ev[r.n_edge - 1] != t->ev + 1)) r.edge_ev[r.n_edge++] = t->ev + 1;
    }
}
void sim_conflict_point() { note_conflict_point(t_self); on_event(); }
static bool sys_call_fails(int *err) {
    Task *t = t_self;
    if (!t || !t->op || !t->in_op) return false;
    note_conflict_point(t);
    on_event();
    uint32_t k = ++t->sys_count;
    const Fault &f = t->op->f;
    if (f.sys_k && (int)k == f.sys_k) {
        t->res[t->cur_op].sys_faults++;
        sim_log(LOG_FAULT, 20, k);
        *err = f.sys_errno ? f.sys_errno : EIO;
        return true;
    }
    return false;
}
#define SYS_FAIL(retval) do { int e_; if (sys_call_fails(&e_)) { errno = e_; return retval; } } while (0)
extern "C" {
FILE *__wrap_fopen(const char *p, const char *m) { SYS_FAIL(nullptr); FILE *r = fopen(p, m); on_event(); return r; }
FILE *__wrap_fopen64(const char *p, const char *m) { SYS_FAIL(nullptr); FILE *r = fopen(p, m); on_event(); return r; }
FILE *__wrap_fdopen(int fd, const char *m) { SYS_FAIL(nullptr); FILE *r = fdopen(fd, m); on_event(); return r; }
FILE *__wrap_tmpfile(void) { SYS_FAIL(nullptr); FILE *r = tmpfile(); on_event(); return r; }
FILE *__wrap_tmpfile64(void) { SYS_FAIL(nullptr); FILE *r = tmpfile(); on_event(); return r; }
FILE *__wrap_freopen(const char *p, const char *m, FILE *f) { sim_conflict_point(); FILE *r = freopen(p, m, f); on_event(); return r; }
// memory streams: the buffer belongs to the caller (here: the library) once the stream is closed - a dynamic allocation the
// library performs through libc. Opening one is an allocation request (can be failed); after fclose the buffer is tracked
// like any block the library has to release.
struct MemStream { FILE *f; void **bufp; uintptr_t ra; };
static std::vector<MemStream> g_memstreams;
static void *track_result(void *p, size_t n, uintptr_t ra);
static bool convenience_request(uintptr_t ra);
FILE *__wrap_open_wmemstream(wchar_t **bufp, size_t *sizep) {
    uintptr_t ra = (uintptr_t)__builtin_return_address(0);
    if (convenience_request(ra)) { errno = ENOMEM; return nullptr; }
    FILE *f = open_wmemstream(bufp, sizep);
    if (f && t_self && t_self->op) g_memstreams.push_back({f, (void **)bufp, ra});
    on_event();
    return f;
}
FILE *__wrap_open_memstream(char **bufp, size_t *sizep) {
    uintptr_t ra = (uintptr_t)__builtin_return_address(0);
    if (convenience_request(ra)) { errno = ENOMEM; return nullptr; }
    FILE *f = open_memstream(bufp, sizep);
    if (f && t_self && t_self->op) g_memstreams.push_back({f, (void **)bufp, ra});
    on_event();
    return f;
}
int __wrap_fclose(FILE *f) {
    int e_ = 0;
    bool fail = sys_call_fails(&e_);
    int r = fclose(f);
    for (size_t i = 0; i < g_memstreams.size(); i++)
        if (g_memstreams[i].f == f) {
            if (*g_memstreams[i].bufp) track_result(*g_memstreams[i].bufp, 1, g_memstreams[i].ra);
            g_memstreams.erase(g_memstreams.begin() + i);
            break;
        }
    on_event();
    if (fail) { errno = e_; return EOF; }
    return r;
}
int __wrap_close(int fd) { int e_ = 0; bool fail = sys_call_fails(&e_); int r = close(fd); on_event(); if (fail) { errno = e_; return -1; } return r; }
int __wrap_open(const char *p, int flags, ...) {
    mode_t m = 0;
    if (flags & (O_CREAT | O_TMPFILE)) { va_list ap; va_start(ap, flags); m = va_arg(ap, mode_t); va_end(ap); }
    SYS_FAIL(-1);
    int r = open(p, flags, m);
    on_event();
    return r;
}
int __wrap_open64(const char *p, int flags, ...) {
    mode_t m = 0;
    if (flags & (O_CREAT | O_TMPFILE)) { va_list ap; va_start(ap, flags); m = va_arg(ap, mode_t); va_end(ap); }
    SYS_FAIL(-1);
    int r = open(p, flags, m);
    on_event();
    return r;
}
int __wrap_creat(const char *p, mode_t m) { SYS_FAIL(-1); int r = creat(p, m); on_event(); return r; }
int __wrap_unlink(const char *p) { SYS_FAIL(-1); int r = unlink(p); on_event(); return r; }
int __wrap_remove(const char *p) { SYS_FAIL(-1); int r = remove(p); on_event(); return r; }
int __wrap_rename(const char *a, const char *b) { SYS_FAIL(-1); int r = rename(a, b); on_event(); return r; }
int __wrap_mkstemp(char *tpl) { SYS_FAIL(-1); int r = mkstemp(tpl); on_event(); return r; }
int __wrap_mkstemp64(char *tpl) { SYS_FAIL(-1); int r = mkstemp(tpl); on_event(); return r; }
int __wrap_mkostemp(char *tpl, int fl) { SYS_FAIL(-1); int r = mkostemp(tpl, fl); on_event(); return r; }
int __wrap_dup(int fd) { SYS_FAIL(-1); int r = dup(fd); on_event(); return r; }
int __wrap_dup2(int a, int b) { SYS_FAIL(-1); int r = dup2(a, b); on_event(); return r; }
int __wrap_fcntl(int fd, int cmd, ...) {
    va_list ap;
    va_start(ap, cmd);
    long arg = va_arg(ap, long);
    va_end(ap);
    SYS_FAIL(-1);
    int r = fcntl(fd, cmd, arg);
    on_event();
    return r;
}
int __wrap_access(const char *p, int m) { SYS_FAIL(-1); int r = access(p, m); on_event(); return r; }
int __wrap_stat(const char *p, struct stat *st) { SYS_FAIL(-1); int r = stat(p, st); on_event(); return r; }
int __wrap_fstat(int fd, struct stat *st) { SYS_FAIL(-1); int r = fstat(fd, st); on_event(); return r; }
int __wrap_lstat(const char *p, struct stat *st) { SYS_FAIL(-1); int r = lstat(p, st); on_event(); return r; }
}

// ---- atomic operations of library code (plain variant: the TSan pass, atomics only, see Makefile). Each is a yield
// point and a conflict point BEFORE the operation, then the operation itself, sequentially consistent.
extern "C" {
void __tsan_init(void) {}
void __tsan_atomic_thread_fence(int) { sim_conflict_point(); __atomic_thread_fence(__ATOMIC_SEQ_CST); }
void __tsan_atomic_signal_fence(int) { on_event(); }
#define TSAN_ATOMICS(N, T)                                                                                                  \
    T __tsan_atomic##N##_load(const volatile T *a, int) { sim_conflict_point(); return __atomic_load_n(a, __ATOMIC_SEQ_CST); } \
    void __tsan_atomic##N##_store(volatile T *a, T v, int) { sim_conflict_point(); __atomic_store_n(a, v, __ATOMIC_SEQ_CST); } \
    T __tsan_atomic##N##_exchange(volatile T *a, T v, int) { sim_conflict_point(); return __atomic_exchange_n(a, v, __ATOMIC_SEQ_CST); } \
    T __tsan_atomic##N##_fetch_add(volatile T *a, T v, int) { sim_conflict_point(); return __atomic_fetch_add(a, v, __ATOMIC_SEQ_CST); } \
    T __tsan_atomic##N##_fetch_sub(volatile T *a, T v, int) { sim_conflict_point(); return __atomic_fetch_sub(a, v, __ATOMIC_SEQ_CST); } \
    T __tsan_atomic##N##_fetch_and(volatile T *a, T v, int) { sim_conflict_point(); return __atomic_fetch_and(a, v, __ATOMIC_SEQ_CST); } \
    T __tsan_atomic##N##_fetch_or(volatile T *a, T v, int) { sim_conflict_point(); return __atomic_fetch_or(a, v, __ATOMIC_SEQ_CST); } \
    T __tsan_atomic##N##_fetch_xor(volatile T *a, T v, int) { sim_conflict_point(); return __atomic_fetch_xor(a, v, __ATOMIC_SEQ_CST); } \
    T __tsan_atomic##N##_fetch_nand(volatile T *a, T v, int) { sim_conflict_point(); return __atomic_fetch_nand(a, v, __ATOMIC_SEQ_CST); } \
    int __tsan_atomic##N##_compare_exchange_strong(volatile T *a, T *c, T v, int, int) {                                    \
        sim_conflict_point();                                                                                              \
        return __atomic_compare_exchange_n(a, c, v, 0, __ATOMIC_SEQ_CST, __ATOMIC_SEQ_CST);                                 \
    }                                                                                                                      \
    int __tsan_atomic##N##_compare_exchange_weak(volatile T *a, T *c, T v, int, int) {                                      \
        sim_conflict_point();                                                                                              \
        return __atomic_compare_exchange_n(a, c, v, 0, __ATOMIC_SEQ_CST, __ATOMIC_SEQ_CST);                                 \
    }                                                                                                                      \
    T __tsan_atomic##N##_compare_exchange_val(volatile T *a, T c, T v, int, int) {                                          \
        sim_conflict_point();                                                                                              \
        __atomic_compare_exchange_n(a, &c, v, 0, __ATOMIC_SEQ_CST, __ATOMIC_SEQ_CST);                                       \
        return c;                                                                                                          \
    }
TSAN_ATOMICS(8, unsigned char)
TSAN_ATOMICS(16, unsigned short)
TSAN_ATOMICS(32, unsigned int)
TSAN_ATOMICS(64, unsigned long)
}

void (*g_handler_hook)(int hid, int code) = nullptr;
void (*g_handler_after)(int hid) = nullptr;
struct HandlerCall {
    int hid, kind, code;
    const char *msg;
    const void *ptr;
};
static void handler_body(void *p_) {
    HandlerCall *c = (HandlerCall *)p_;
    Task *t = t_self;
    bool save = t->in_op;
    t->in_op = false;
    HCall h;
    h.hid = c->hid;
    h.kind = c->kind;
    h.code = c->code;
    h.msgh = c->msg ? hash_bytes(c->msg, strlen(c->msg)) : 0;
    {
        // the pointer argument: NULL, a position in the calling task's own memory (hashed as an offset), or something else
        uintptr_t a = (uintptr_t)c->ptr, b = (uintptr_t)t->arena.base;
        uint64_t pc = !a ? 0 : (a >= b && a < b + ARENA_SIZE) ? 16 + (a - b) : 1;
        h.msgh = mix64(h.msgh, pc);
    }
    // a message that holds the poison of a released block was read from memory the library had already released
    if (c->msg && strstr(c->msg, "\xDD\xDD\xDD\xDD")) { t->res[t->cur_op].heap_uaf++; sim_log(LOG_FAULT, 12, 0); }
    h.task = t->id;
    sim_log(LOG_HANDLER, ((uint64_t)t->id << 32) | (uint32_t)c->hid, (uint64_t)(uint32_t)c->code);
    h.seq = g_sim.seq;
    t->res[t->cur_op].hcalls.push_back(h);
    if (g_handler_hook) g_handler_hook(c->hid, c->code);
    t->in_op = save;
}
void note_handler(int hid, int kind, const char *msg, int code, const void *ptr) {
    Task *t = t_self;
    if (!t || !t->op) return;
    HandlerCall c = {hid, kind, code, msg, ptr};
    alt_call(handler_body, &c);
    on_event();
    if (g_handler_after) g_handler_after(hid); // on the library's stack: may call back into the library
}
extern "C" void sim_handler_log(const char *msg, void *ptr, int error) { note_handler(1, 0, msg, error, ptr); }
extern "C" void __wrap_ignore_handler_s(const char *msg, void *ptr, int error) { note_handler(0, 0, msg, error, ptr); }

// ------------------------------------------------------------------ arenas
// All task arenas lie back to back in one mapping (guard pages only at the two ends): "disjoint caller data" may be
// adjacent in memory, down to sharing a machine word. Consecutive arenas overlap by one aligned 8-byte word: its
// first half is the last 4 bytes a task may use (offsets up to ARENA_SIZE-4), its second half the first 4 bytes of
// the next task (offsets from 4). A task owns, fills and hashes [4, ARENA_SIZE-4) of its arena. Generators place some
// destination buffers flush against those edges, so a call that touches bytes just outside the range it was given
// - even by re-writing them with their old value - reaches the neighbouring task's data.
enum { MAX_ARENAS = 8, ARENA_STRIDE = ARENA_SIZE - 8 };
static uint8_t *g_arena_block = nullptr;
static void arena_alloc(Task &t) {
    if (!g_arena_block) {
        size_t total = (((size_t)MAX_ARENAS * ARENA_STRIDE + 8 + 4095) & ~(size_t)4095) + 2 * 4096;
        // fixed address: pointers the library stores into caller memory (search results, tokens)
        // are then the same in every process, so digests never depend on ASLR
        void *want = (void *)0x200000000000ULL;
        uint8_t *m = (uint8_t *)mmap(want, total, PROT_READ | PROT_WRITE, MAP_PRIVATE | MAP_ANONYMOUS | MAP_FIXED_NOREPLACE, -1, 0);
        if (m == MAP_FAILED || m != want) { perror("mmap arenas"); _exit(2); }
        mprotect(m, 4096, PROT_NONE);
        mprotect(m + total - 4096, 4096, PROT_NONE);
        g_arena_block = m;
        g_arena_blk_lo = (uintptr_t)m;
        g_arena_blk_span = total;
    }
    if (t.id < 0 || t.id >= MAX_ARENAS) { fprintf(stderr, "sim: too many tasks\n"); _exit(2); }
    t.arena.map = g_arena_block;
    t.arena.base = g_arena_block + 4096 + (size_t)t.id * ARENA_STRIDE;
    t.arena.size = ARENA_SIZE;
}
void arena_fill(Task &t) {
    arena_alloc(t);
    uint64_t seed = t.plan->arena_seed;
    memset(t.arena.base + ARENA_LO, 0, ARENA_HI - ARENA_LO);
    Rng r(seed);
    uint8_t *b = t.arena.base;
    for (size_t i = 8; i + 8 <= ARENA_SIZE - ARENA_TAIL; i += 8) {
        uint64_t v = r.next();
        for (int k = 0; k < 8; k++) {
            uint8_t x = (uint8_t)(v >> (8 * k));
            b[i + k] = (x % 17 == 0) ? 0 : (uint8_t)('a' + x % 26);
        }
    }
    for (const Op &op : t.plan->ops)
        for (const Blob &bl : op.blobs)
            if (!op.late && bl.off >= ARENA_LO && bl.off + bl.bytes.size() <= ARENA_HI) memcpy(b + bl.off, bl.bytes.data(), bl.bytes.size());
}

// ------------------------------------------------------------------ scheduler
static bool runnable(int id) {
    return id >= 0 && id < (int)g_sim.tasks.size() && g_sim.tasks[id]->state == T_RUNNABLE;
}
int lowest_runnable(int except) {
    for (Task *o : g_sim.tasks)
        if (o->id != except && o->state == T_RUNNABLE) return o->id;
    return -1;
}
static void do_switch(Task &t, int tgt, bool wait, bool record = true) {
    if (record) g_sim.recorded.push_back({t.id, t.cur_op, t.ev, tgt});
    sim_log(LOG_SWITCH, ((uint64_t)t.id << 32) | (uint32_t)t.cur_op, ((uint64_t)t.ev << 8) | (uint32_t)tgt);
    g_sim.running = tgt;
    sem_post(&g_sim.tasks[tgt]->sem);
    if (wait) {
        while (sem_wait(&t.sem) != 0) {}
    }
}
static void event_slow(Task &t) {
    int e = errno;
    bool save = t.in_op;
    t.in_op = false;
    int tgt = g_sim.strat->at_event(t);
    if (tgt >= 0 && tgt != t.id && runnable(tgt)) do_switch(t, tgt, true);
    t.countdown = g_sim.strat->arm(t);
    t.in_op = save;
    errno = e;
}
// a switch decided by the workload itself (not by the strategy): deterministic given the state, so it is logged
// but not part of the recorded schedule
void sim_switch_to(Task &t, int target) {
    if (target < 0 || target == t.id || !runnable(target)) return;
    bool save = t.in_op;
    t.in_op = false;
    do_switch(t, target, true, false);
    t.in_op = save;
}
// the running task cannot continue: hand the processor to somebody else (or to the simulator)
static void forced_switch(Task &t, bool final) {
    int tgt = g_sim.strat->at_forced(t);
    if (tgt < 0 || !runnable(tgt) || tgt == t.id) tgt = lowest_runnable(t.id);
    if (tgt < 0) {
        bool all_done = true;
        for (Task *o : g_sim.tasks)
            if (o->state != T_DONE && o->state != T_NOTSTARTED) all_done = false;
        if (!all_done) g_sim.deadlock = true;
        g_sim.running = -1;
        sem_post(&g_sim.main_sem);
        if (!final) {
            while (sem_wait(&t.sem) != 0) {}
        }
        return;
    }
    do_switch(t, tgt, !final);
}

static void __attribute__((noinline)) stack_scrub() {
    volatile char pad[24 * 1024];
    for (size_t i = 0; i < sizeof pad; i += 64) pad[i] = 0;
    memset((void *)pad, 0, sizeof pad);
    __asm__ volatile("" ::"r"(pad) : "memory");
}

// process-wide settings a library call has no business leaving changed: part of every digest, so that a call whose
// borrowed setting is restored to the wrong value (because another thread's call ran in the window) is seen by oracle I
static uint64_t settings_fingerprint() {
    Hasher h;
    mode_t m = umask(0);
    umask(m);
    h.u64((uint64_t)m);
    h.u64((uint64_t)fegetround());
    const char *lc = setlocale(LC_ALL, nullptr);
    if (lc) h.bytes(lc, strlen(lc));
    for (char **e = environ; e && *e; e++) h.bytes(*e, strlen(*e));
    char cwd[512];
    if (getcwd(cwd, sizeof cwd)) h.bytes(cwd, strlen(cwd));
    return h.h;
}
static std::vector<std::string> g_env0;
static std::string g_cwd0;
static void settings_reset() {
    if (g_env0.empty()) {
        for (char **e = environ; e && *e; e++) g_env0.push_back(*e);
        char cwd[512];
        if (getcwd(cwd, sizeof cwd)) g_cwd0 = cwd;
        return;
    }
    umask(022);
    fesetround(FE_TONEAREST);
    bool same = true;
    size_t n = 0;
    for (char **e = environ; e && *e; e++, n++)
        if (n >= g_env0.size() || g_env0[n] != *e) same = false;
    if (!same || n != g_env0.size()) {
        clearenv();
        for (auto &kv : g_env0) {
            size_t eq = kv.find('=');
            if (eq != std::string::npos) setenv(kv.substr(0, eq).c_str(), kv.c_str() + eq + 1, 1);
        }
    }
    char cwd[512];
    if (!g_cwd0.empty() && getcwd(cwd, sizeof cwd) && g_cwd0 != cwd) (void)!chdir(g_cwd0.c_str());
}

static void finish_digest(Task &t, OpResult &r) {
    r.arena_hash = hash_bytes(t.arena.base + ARENA_LO, ARENA_HI - ARENA_LO, 0);
    Hasher h;
    h.u64((uint64_t)r.ret);
    h.u64(r.arena_hash);
    h.u64(r.hcalls.size());
    for (auto &c : r.hcalls) { h.u64((uint64_t)c.hid); h.u64((uint64_t)(int64_t)c.code); h.u64(c.msgh); }
    h.str(r.out);
    h.u64(r.double_free);
    h.u64(((uint64_t)r.heap_overrun << 32) | r.heap_uaf);
    r.digest_noerr = h.h;
    {
        Hasher hh = h;
        hh.u64(settings_fingerprint());
        r.digest_h = hh.h;
    }
    h.u64((uint64_t)(int64_t)r.err);
    r.digest_core = h.h;
    h.u64(settings_fingerprint());
    r.digest = h.h;
}

static void run_one_op(Task &t, int i, const Op &op) {
    OpResult &r = t.res[i];
    bool null_op = g_sim.cfg.mode == PASS_NULLOTHERS && t.id != g_sim.cfg.victim;
    sim_log(LOG_INVOKE, ((uint64_t)t.id << 32) | (uint32_t)i, (uint64_t)op.fn);
    t.op = &op;
    t.alloc_count = 0;
    t.sys_count = 0;
    t.wr_bytes = 0;
    t.rd_pos = 0;
    if (!null_op) {
        if (op.late)
            for (const Blob &bl : op.blobs)
                if (bl.off >= ARENA_LO && bl.off + bl.bytes.size() <= ARENA_HI) memcpy(t.arena.base + bl.off, bl.bytes.data(), bl.bytes.size());
        stack_scrub();
        // a thread's errno carries over from its previous call (caller-visible per-thread state); a renewed thread
        // (oracle H) starts every call with errno 0
        errno = (g_sim.cfg.renew_threads || i == 0) ? 0 : t.errno_carry;
        t.countdown = g_sim.strat->arm(t);
        g_sim.cfg.exec(t, op, r); // sets in_op around the library call
        r.err = errno;
        t.errno_carry = r.err;
    }
    r.nev = t.ev;
    g_sim.events += t.ev;
    for (auto &a : g_live)
        if (a.task == t.id && a.op == i) {
            r.outstanding++;
            if (a.guarded && !rz_ok(a.p, a.size)) r.heap_overrun++;
        }
    r.heap_uaf += quarantine_flush(t.id);
    t.op = nullptr;
    if (g_sim.cfg.track_static) g_lib.diff_cur(r.footprint);
    finish_digest(t, r);
    r.done = true;
    sim_log(LOG_RETURN, ((uint64_t)t.id << 32) | (uint32_t)i, r.digest);
}

static pthread_key_t g_exit_key;
static void task_exit_dtor(void *arg);
static void *task_main(void *arg) {
    Task *t = (Task *)arg;
    t_self = t;
    t->self_id = (uintptr_t)pthread_self();
    while (sem_wait(&t->sem) != 0) {}
    const TaskPlan &tp = *t->plan;
    {
        static const int modes[4] = {FE_TONEAREST, FE_UPWARD, FE_DOWNWARD, FE_TOWARDZERO};
        fesetround(modes[tp.fe_round & 3]); // the harness's own call: this thread's rounding mode is the caller's business
    }
    for (size_t i = 0; i < tp.ops.size(); i++) {
        t->cur_op = (int)i;
        t->ev = 0;
        if (i > 0 && g_sim.cfg.renew_threads) lib_thread_renew();
        int tgt = g_sim.strat->at_boundary(*t);
        if (tgt >= 0 && tgt != t->id && runnable(tgt)) do_switch(*t, tgt, true);
        run_one_op(*t, (int)i, tp.ops[i]);
    }
    t->cur_op = (int)tp.ops.size();
    t->ev = 0;
    // The task ends when its thread has run its thread-exit handlers (TLS destructors the library may have
    // registered): they still execute "as this task", serialised like everything else. The hand-off happens in
    // task_exit_dtor, which glibc calls once before and - because it re-arms itself - once after all other
    // thread-specific-data destructors.
    t->exit_stage = 0;
    pthread_setspecific(g_exit_key, t);
    return nullptr;
}
static void task_exit_dtor(void *arg) {
    Task *t = (Task *)arg;
    if (t->exit_stage == 0) { // first round: this key was created first, so it is visited first; come back after the others
        t->exit_stage = 1;
        pthread_setspecific(g_exit_key, t);
        return;
    }
    t->state = T_DONE;
    for (Task *o : g_sim.tasks)
        if (o->state == T_BLOCKED && o->blocked_on == t->id) { o->state = T_RUNNABLE; o->blocked_on = -1; }
    t_self = nullptr;
    forced_switch(*t, true);
}

static void start_thread(Task &t) {
    pthread_attr_t at;
    pthread_attr_init(&at);
    pthread_attr_setstacksize(&at, 512 * 1024);
    t.state = T_RUNNABLE;
    if (pthread_create(&t.th, &at, task_main, &t) != 0) { perror("pthread_create"); _exit(2); }
    t.th_valid = true;
    pthread_attr_destroy(&at);
}

void task_spawn(Task &parent, int child) {
    if (child < 0 || child >= (int)g_sim.tasks.size()) return;
    Task &c = *g_sim.tasks[child];
    if (c.state != T_NOTSTARTED) return;
    sim_log(LOG_SPAWN, parent.id, child);
    start_thread(c);
}
void task_join(Task &self, int child) {
    if (child < 0 || child >= (int)g_sim.tasks.size()) return;
    Task &c = *g_sim.tasks[child];
    if (c.state == T_NOTSTARTED) return;
    if (c.state != T_DONE) {
        self.state = T_BLOCKED;
        self.blocked_on = child;
        uint32_t save_ev = self.ev;
        self.ev = 0xffffffffu;
        forced_switch(self, false);
        self.ev = save_ev;
    }
    if (c.th_valid) {
        pthread_join(c.th, nullptr);
        c.th_valid = false;
    }
    sim_log(LOG_JOIN, self.id, child);
}

static std::vector<Task *> g_pool; // Task objects (arenas, semaphores) are reused across passes

void run_pass(const Plan &plan, const PassCfg &cfg, Strategy &strat, PassResult &out) {
    // ---- reset everything a previous pass may have left behind
    g_lib.restore_pristine();
    for (auto &a : g_live) { if (a.guarded) guarded_release(a.p); else free(a.p); }
    g_live.clear();
    quarantine_flush(-1);
    g_memstreams.clear();
    g_last_released_n = 0;
    g_freed.clear();
    g_locks.clear();
    g_onces.clear();
    lib_keys_release();
    setlocale(LC_ALL, plan.locale ? "C.UTF-8" : "C");
    settings_reset();
    g_sim.plan = &plan;
    g_sim.cfg = cfg;
    g_sim.strat = &strat;
    g_sim.seq = 0;
    g_sim.events = 0;
    g_sim.log = Hasher();
    g_sim.recorded.clear();
    g_sim.deadlock = false;
    g_sim.tasks.clear();
    while (g_pool.size() < plan.tasks.size()) {
        Task *t = new Task();
        sem_init(&t->sem, 0, 0);
        t->alt_stack = (uint8_t *)mmap(nullptr, ALT_STACK_SIZE, PROT_READ | PROT_WRITE, MAP_PRIVATE | MAP_ANONYMOUS, -1, 0);
        if (t->alt_stack == MAP_FAILED) { perror("mmap alt stack"); _exit(2); }
        g_pool.push_back(t);
    }
    for (size_t i = 0; i < plan.tasks.size(); i++) {
        Task *t = g_pool[i];
        t->id = (int)i;
        t->plan = &plan.tasks[i];
        t->state = T_NOTSTARTED;
        t->blocked_on = -1;
        t->cur_op = 0;
        t->ev = 0;
        t->countdown = 0;
        t->in_op = false;
        t->on_alt = false;
        t->op = nullptr;
        t->th_valid = false;
        t->res.assign(plan.tasks[i].ops.size(), OpResult());
        while (sem_trywait(&t->sem) == 0) {}
        arena_fill(*t);
        g_sim.tasks.push_back(t);
    }
    errno = 0;
    if (cfg.before_tasks) cfg.before_tasks();
    if (cfg.track_static) g_lib.sync_cur();
    // ---- start root tasks
    int first = -1;
    for (size_t i = 0; i < plan.tasks.size(); i++) {
        if (cfg.mode == PASS_SOLO && (int)i != cfg.solo_task) continue;
        if (plan.tasks[i].parent >= 0) continue;
        start_thread(*g_sim.tasks[i]);
        if (first < 0) first = (int)i;
    }
    int start = cfg.mode == PASS_SOLO ? first : strat.first();
    if (!runnable(start)) start = first;
    out.start = start;
    g_sim.in_pass = true;
    if (start >= 0) {
        g_sim.running = start;
        sim_log(LOG_SWITCH, (uint64_t)-1, (uint64_t)start);
        sem_post(&g_sim.tasks[start]->sem);
        while (sem_wait(&g_sim.main_sem) != 0) {}
    }
    g_sim.in_pass = false;
    if (g_sim.deadlock) {
        fprintf(stderr, "sim: deadlock (no runnable task, not all done)\n");
        _exit(2);
    }
    for (Task *t : g_sim.tasks)
        if (t->th_valid) { pthread_join(t->th, nullptr); t->th_valid = false; }
    // what a task's memory looks like when everybody is done is part of its last call's observable outcome:
    // a write that lands in it after that call returned (another thread's call storing outside its own range)
    // would otherwise go unnoticed
    for (Task *t : g_sim.tasks) {
        int last = -1;
        for (size_t i = 0; i < t->res.size(); i++)
            if (t->res[i].done) last = (int)i;
        if (last >= 0) finish_digest(*t, t->res[last]);
    }
    // blocks still live now that every thread has ended and run its exit handlers: released by nobody
    // (a block allocated inside a one-time initialiser is a bounded, process-lifetime object, not something a call leaks)
    for (auto &a : g_live)
        if (!a.once && a.task >= 0 && a.task < (int)g_sim.tasks.size() && a.op >= 0 && a.op < (int)g_sim.tasks[a.task]->res.size()) g_sim.tasks[a.task]->res[a.op].leaked++;
    out.res.clear();
    for (Task *t : g_sim.tasks) out.res.push_back(t->res);
    out.recorded = g_sim.recorded;
    out.loghash = g_sim.log.h;
    out.events = g_sim.events;
    out.deadlock = false;
}

// ------------------------------------------------------------------ strategies
ReplayStrategy::ReplayStrategy(const Schedule &s, int ntasks) : sch(s) {
    per.resize(ntasks);
    pos.assign(ntasks, 0);
    for (auto &w : s.sw)
        if (w.task >= 0 && w.task < ntasks) per[w.task].push_back(w);
}
const Switch *ReplayStrategy::peek(Task &t) {
    auto &v = per[t.id];
    size_t &p = pos[t.id];
    // drop records that lie behind the task's current position
    while (p < v.size() && (v[p].op < t.cur_op || (v[p].op == t.cur_op && v[p].ev < t.ev))) p++;
    return p < v.size() ? &v[p] : nullptr;
}
uint32_t ReplayStrategy::arm(Task &t) {
    const Switch *r = peek(t);
    if (r && r->op == t.cur_op && r->ev > t.ev && r->ev != 0xffffffffu) return r->ev - t.ev;
    return 0;
}
int ReplayStrategy::at_event(Task &t) {
    const Switch *r = peek(t);
    if (r && r->op == t.cur_op && r->ev == t.ev) { pos[t.id]++; return r->target; }
    return -1;
}
int ReplayStrategy::at_boundary(Task &t) {
    const Switch *r = peek(t);
    if (r && r->op == t.cur_op && r->ev == 0) { pos[t.id]++; return r->target; }
    return -1;
}
int ReplayStrategy::at_forced(Task &t) {
    const Switch *r = peek(t);
    if (r && r->op == t.cur_op && r->ev == t.ev) {
        pos[t.id]++;
        if (r->target >= 0 && r->target < (int)g_sim.tasks.size() && g_sim.tasks[r->target]->state == T_RUNNABLE) return r->target;
    }
    return lowest_runnable(t.id);
}

RandomStrategy::RandomStrategy(uint64_t seed, int kind_, int ntasks, uint64_t est_events, uint32_t inv_p_, int depth)
    : rng(seed), kind(kind_), inv_p(inv_p_ ? inv_p_ : 64) {
    if (kind == 2) {
        prio.resize(ntasks);
        for (int i = 0; i < ntasks; i++) prio[i] = i + 1;
        for (int i = ntasks - 1; i > 0; i--) std::swap(prio[i], prio[rng.below(i + 1)]);
        for (int i = 0; i + 1 < depth; i++) change.push_back(1 + rng.next() % (est_events ? est_events : 1));
        std::sort(change.begin(), change.end());
    }
}
int RandomStrategy::pick_other(int self) {
    int cand[16], n = 0;
    for (Task *o : g_sim.tasks)
        if (o->id != self && o->state == T_RUNNABLE && n < 16) cand[n++] = o->id;
    return n ? cand[rng.below(n)] : -1;
}
int RandomStrategy::pct_best(int except) {
    int best = -1;
    for (Task *o : g_sim.tasks)
        if (o->id != except && o->state == T_RUNNABLE && (best < 0 || prio[o->id] > prio[best])) best = o->id;
    return best;
}
uint32_t RandomStrategy::arm(Task &t) {
    if (kind == 1) {
        if (npreempt >= max_preempt) return 0;
        return 1 + rng.below(2 * inv_p);
    }
    if (kind == 2) {
        uint64_t now = g_sim.events + t.ev;
        while (change_pos < change.size() && change[change_pos] <= now) change_pos++;
        if (change_pos < change.size()) {
            uint64_t d = change[change_pos] - now;
            return d > 0xfffffff0u ? 0 : (uint32_t)d;
        }
    }
    return 0;
}
int RandomStrategy::at_event(Task &t) {
    if (kind == 1) { npreempt++; return pick_other(t.id); }
    if (kind == 2) {
        prio[t.id] = -(int)(++change_pos);
        int b = pct_best(-1);
        return b == t.id ? -1 : b;
    }
    return -1;
}
int RandomStrategy::at_boundary(Task &t) {
    if (kind == 2) { int b = pct_best(-1); return b == t.id ? -1 : b; }
    if (kind == 0) return rng.chance(1, 2) ? pick_other(t.id) : -1;
    return rng.chance(1, 4) ? pick_other(t.id) : -1;
}
int RandomStrategy::at_forced(Task &t) {
    if (kind == 2) return pct_best(t.id);
    return pick_other(t.id);
}
int RandomStrategy::first() {
    if (kind == 2) {
        int best = -1;
        for (size_t i = 0; i < prio.size(); i++)
            if (g_sim.tasks[i]->state == T_RUNNABLE && (best < 0 || prio[i] > prio[best])) best = (int)i;
        return best;
    }
    int cand[16], n = 0;
    for (Task *o : g_sim.tasks)
        if (o->state == T_RUNNABLE && n < 16) cand[n++] = o->id;
    return n ? cand[rng.below(n)] : -1;
}

// ------------------------------------------------------------------ process-level setup
static void fatal_handler(int sig) {
    static volatile int once = 0;
    if (once++) _exit(100 + sig);
    // the hook writes a replay file; if the crash left a libc lock held (heap corruption detected inside malloc) it
    // would wait for ever: give it three seconds
    signal(SIGALRM, SIG_DFL);
    alarm(3);
    if (g_crash_hook) g_crash_hook(sig);
    _exit(100 + sig);
}
#ifdef VARIANT_asan
extern "C" void __sanitizer_set_death_callback(void (*cb)(void));
static void asan_death() {
    static volatile int once = 0;
    if (once++) return;
    if (g_crash_hook) g_crash_hook(0);
}
extern "C" __attribute__((used, visibility("default"))) const char *__asan_default_options() {
    return "exitcode=77:detect_leaks=0:abort_on_error=0:handle_segv=0:handle_abort=0:allocator_may_return_null=1:detect_stack_use_after_return=0:check_printf=0";
}
extern "C" __attribute__((used, visibility("default"))) const char *__ubsan_default_options() {
    return "print_stacktrace=1:halt_on_error=1:exitcode=77";
}
#endif

void sim_global_init(const char *) {
    setenv("TZ", "UTC", 1);
    tzset();
    sem_init(&g_sim.main_sem, 0, 0);
    pthread_key_create(&g_exit_key, task_exit_dtor);
    g_covhit = (uint8_t *)calloc(g_nguards + 2, 1);
    g_covpc = (uintptr_t *)calloc(g_nguards + 2, sizeof(uintptr_t));
    g_lib.init();
    struct sigaction sa;
    memset(&sa, 0, sizeof sa);
    sa.sa_handler = fatal_handler;
    sa.sa_flags = SA_NODEFER;
    sigaction(SIGSEGV, &sa, nullptr);
    sigaction(SIGBUS, &sa, nullptr);
    sigaction(SIGFPE, &sa, nullptr);
    sigaction(SIGILL, &sa, nullptr);
    sigaction(SIGABRT, &sa, nullptr);
#ifdef VARIANT_asan
    __sanitizer_set_death_callback(asan_death);
#endif
}
