#!/usr/bin/env python3
"""validate MANIFEST.json and evidence/*.json against the schemas (needs jsonschema: python3-vt)"""
import json, sys, glob, jsonschema
ok = True
m = json.load(open('/verif/MANIFEST.json'))
jsonschema.validate(m, json.load(open('/root/.vp/MANIFEST.schema.json')))
print('MANIFEST ok;', len(m['checks']), 'checks,', len(m.get('not_applicable', [])), 'n/a')
ids = {json.loads(l)['id'] for l in open('/verif/properties.jsonl')}
claimed = {c['property_id'] for c in m['checks']}
na = {c['property_id'] for c in m.get('not_applicable', [])}
assert claimed | na == ids and not (claimed & na), (ids - claimed - na, claimed & na)
es = json.load(open('/root/.vp/EVIDENCE.schema.json'))
for f in sorted(glob.glob('/verif/evidence/*.json')):
    jsonschema.validate(json.load(open(f)), es)
    print(f, 'ok')
